"""C14 - bootable image: segments land at the device offsets and come back on parse (DESIGN.md section 4, C14).

Quantifier domain: every (device, revision, memory type) of the ``bootable_image`` feature, enumerated by
vf/gen/dbenum.py + vf/gen/dbenum_bimg.py (own YAML walk).  The oracle is vf/ref/bimg_layout.py: an spsdk-free reader
of the segment table (static offsets, floating segments, fill pattern, initial offset) that says where every byte of
the merged image has to come from and what a reader of the image gets back per segment.

The calls into the code under test are those of ``nxpimage bootable-image merge`` / ``parse``:
``BootableImage.load_from_config(cfg, [dir])`` -> ``image_info().export()`` and ``BootableImage.parse(binary, family,
mem_type, revision)``.
"""
from __future__ import annotations

import hashlib
import os
import shutil

from hypothesis import strategies as st

from vf.core import VERIF_DIR, EnumPart, HarnessError, HypPart, Oracle, SkipCase, case_digest, reorder, spsdk_frame
from vf.gen import dbenum
from vf.gen import dbenum_bimg as DBI
from vf.ref import bimg_layout as L

ID = "C14"
LEVEL = "exploration"
TECHNIQUE = (
    "exhaustive enumeration of the (device, revision, memory type) tuples of the device database (own YAML walk) with fixed "
    "payload sets and every initial offset + Hypothesis-generated segment subsets / payload sizes / initial offsets; the merged "
    "image is compared byte for byte with an independent layout reader and parsed back; segments are supplied as binaries and, where "
    "the merge accepts it, as the configuration file of the block (FCB, XMCD, MBI, AHAB)"
)
LEVEL_TEXT = (
    "exploration with the (device, revision, memory type) domain enumerated completely: for every tuple a full image, an "
    "application-only image and one image per admissible initial offset are merged, compared byte for byte with the "
    "independent layout (placement, fill pattern, length) and parsed back with and without the memory type; segment subsets, "
    "payload sizes 1..gap, configuration forms and arbitrary initial offsets are sampled. A pass means no counterexample on "
    "every tuple of the database and on the sampled cases; it is not a proof over all payload contents"
)
RULE = (
    "part 'tuples': per database tuple the sub-cases {all segments / init 0, all segments / each initial-segment offset (as "
    "number and as segment name), a number one below the first initial-segment offset (rounds up), application only}; part "
    "'layouts': (table class first, then a tuple of it, subset of segments, payload size class per raw segment in 1..gap, "
    "FCB/XMCD form, application variant or none, initial offset as 0 / segment name / arbitrary number). Non-trivial = at least "
    "two segments present in the image or initial offset > 0; distinct by (tuple, case digest)"
)
ASSUMPTIONS = [
    "device records are composed as spsdk/data/readme.md documents (defaults <- device <- revision, alias devices copy the origin); "
    "offsets are read from bootable_image.mem_types.<type>.segments in file order, image_pattern defaults to zeros",
    "segment kinds (not in the YAML, part of the format): fixed windows keyblob 256, fcb 512, fcb_xspi 768, image_version(_ap) 4, keystore 2048, "
    "bee_header_0/1 512, xmcd 512; secondary_image_container_set is aligned to 1024; an image may start at fcb, fcb_xspi or the "
    "application container (the offsets parse() is documented to try)",
    "a floating segment follows the previous entry of the table: its start + the length supplied for it (0 when absent), rounded up",
    "raw blocks (key blob, key store, BEE headers) contain at least one byte that is neither 0x00 nor 0xFF inside their window, otherwise they "
    "are indistinguishable from padding; a block shorter than its window comes back followed by fill bytes, a longer one (<= gap) cut to "
    "the window (only the window is demanded)",
    "FCB / XMCD payloads come from the areas' own exporters (default object, or the YAML template handed over as configuration file); where the "
    "default FCB carries no tag (xspi_nor) the tag word 'FCFB' is written into the binary; families without FCB support get a stored FCB binary",
    "application containers: MBI built by the MBI exporter for the family (vf/gen/mbi.py, plain / crc XIP), AHAB built by the AHAB exporter "
    "(unsigned, one small image), HAB and SB2.1/SB3.1 are stored example binaries (fixtures/c14); their inner structure is C01/C06/C07/C04/C05's subject",
    "header-only images (no application) are only checked for placement: parse() of such an image is not documented to work; HAB / SB memory types "
    "are always given their application (the loaders index the key unconditionally)",
    "parse without memory type: the result is compared when the memory type it reports has the same segment table, otherwise only success is required",
]
FLOORS = {"init>0": 0.075, "segs>=2": 0.06, "parse:mem_type": 0.3, "parse:no_mem_type": 0.125, "app:mbi": 0.05, "app:hab": 0.05, "app:ahab": 0.04,
          "floating": 0.015, "pattern:ones": 0.005, "size:short": 0.0075, "size:over": 0.0035, "init_as:name": 0.02, "form:yaml": 0.005,
          "fcb:foreign": 0.0025, "xmcd:flexspi_ram/full": 0.0025}

FIX = os.path.join(VERIF_DIR, "fixtures", "c14")
HAB_FILES = ("hab_rt1024_9606.bin", "hab_rt1064_11060.bin")
SB21_FILES = ("sb21_3808.sb2", "sb21_3584.sb2")
SB31_FILES = ("sb31_816.sb3", "sb31_1020.sb3")
FCB_FOREIGN = "fcb_rt1189_512.bin"
APP_KIND = {"mbi": "mbi", "hab_container": "hab", "ahab_container": "ahab", "primary_image_container_set": "ahab",
            "secondary_image_container_set": "ahab", "sb21": "sb21", "sb31": "sb31"}

_S: dict = {}  # built once in parts() (parent), inherited by the forked workers
_P: dict = {}  # per-process payload cache


# ====================================================================== state
def _state() -> dict:
    if "db" not in _S:
        db = dbenum.load()
        if db.errors:
            raise HarnessError("device database could not be composed: %s" % db.errors[:3])
        _S["db"] = db
        tuples = DBI.bimg_tuples(db)
        if not tuples:
            raise HarnessError("no bootable_image tuple in the database")
        tables = []
        classes: dict = {}
        for i, t in enumerate(tuples):
            try:
                tab = L.Table(DBI.bimg_record(db, t))
                L.fill_block(tab.pattern, 1)
                tab.place({}, 0)
            except (L.LayoutError, ValueError) as exc:
                raise HarnessError("segment table of %s cannot be read: %s" % (t, exc))
            tables.append(tab)
            classes.setdefault((t["mt"],) + tab.key(), []).append(i)
        _S["tuples"], _S["tables"] = tuples, tables
        _S["classes"] = [classes[k] for k in sorted(classes, key=repr)]
        _S["reps"] = {members[0] for members in _S["classes"]}
        _S["index"] = {(t["dev"], t["rev"], t["mt"]): i for i, t in enumerate(tuples)}
    return _S


def _table(case) -> L.Table:
    s = _state()
    i = s["index"].get((case["dev"], case["rev"], case["mt"]))
    if i is None:
        raise HarnessError("tuple %s/%s/%s is not in the database under test" % (case["dev"], case["rev"], case["mt"]))
    return s["tables"][i]


def _h(*parts) -> bytes:
    return hashlib.sha256("/".join(str(p) for p in parts).encode()).digest()


def _stretch(seed: bytes, n: int) -> bytes:
    out = bytearray()
    c = 0
    while len(out) < n:
        out += hashlib.sha256(seed + c.to_bytes(4, "big")).digest()
        c += 1
    return bytes(out[:n])


def _raw_payload(seed: int, n: int, window: int) -> bytes:
    b = bytearray(_stretch(b"c14raw" + int(seed).to_bytes(8, "big"), n))
    head = b[: min(n, window)]
    if all(x in (0x00, 0xFF) for x in head):
        b[0] = 0x5A
    return bytes(b)


# ====================================================================== payloads (the only place besides _evaluate that names SPSDK APIs)
def _workdir() -> str:
    base = _S.get("work") or os.path.join(VERIF_DIR, ".work", "c14-adhoc")
    d = os.path.join(base, "c14", "p%d" % os.getpid())
    os.makedirs(d, exist_ok=True)
    return d


def _cached_file(key: tuple, data_fn, suffix: str = ".bin"):
    """(path, content) of a payload that is a function of its key.  Built once per run: the file lives in a directory
    shared by all worker processes and is never replaced once it exists (hard-link publication), so every process sees
    the same bytes even if a builder were not deterministic."""
    ent = _P.get(key)
    if ent is not None:
        return ent
    shared = os.path.join(_S.get("work") or os.path.join(VERIF_DIR, ".work", "c14-adhoc"), "c14", "shared")
    os.makedirs(shared, exist_ok=True)
    final = os.path.join(shared, "pay_%s%s" % (hashlib.sha256(repr(key).encode()).hexdigest()[:20], suffix))
    if not os.path.exists(final):
        data = data_fn()
        raw = data.encode("utf-8") if isinstance(data, str) else bytes(data)
        tmp = "%s.%d.tmp" % (final, os.getpid())
        with open(tmp, "wb") as f:
            f.write(raw)
        try:
            os.link(tmp, final)
        except FileExistsError:
            pass
        os.unlink(tmp)
    with open(final, "rb") as f:
        raw = f.read()
    ent = _P[key] = (final, raw.decode("utf-8") if suffix == ".yaml" else raw)
    return ent


def _fixture(name: str) -> bytes:
    with open(os.path.join(FIX, name), "rb") as f:
        return f.read()


def _build(fn, what: str):
    """Payload construction is not this property's subject: a builder that fails on the tree excludes the case
    (the label floors keep an emptied class from passing unnoticed)."""
    try:
        return fn()
    except (HarnessError, SkipCase):
        raise
    except Exception as exc:  # noqa: BLE001
        _S.setdefault("build_errors", {}).setdefault(what, "%s: %s" % (type(exc).__name__, str(exc)[:200]))
        raise SkipCase()


def _fcb_payload(dev: str, rev: str, mt: str, name: str, form: str):
    """(config value, expected bytes, labels)"""
    db = _state()["db"]
    size = L.NOMINAL_SIZE[name]
    if mt not in DBI.fcb_mem_types(db, dev, rev):
        data = _fixture(FCB_FOREIGN)
        path, _ = _cached_file(("fcb_foreign",), lambda: data)
        return path, data, ["fcb:foreign"]

    def obj_bytes():
        from spsdk.image.fcb.fcb import FCB
        from spsdk.image.mem_type import MemoryType

        return FCB(dev, MemoryType.from_label(mt), rev).export()

    def tpl():
        from spsdk.image.fcb.fcb import FCB
        from spsdk.image.mem_type import MemoryType

        return FCB.generate_config_template(dev, MemoryType.from_label(mt), rev)

    def tpl_bytes():
        import yaml
        from spsdk.image.fcb.fcb import FCB

        return FCB.load_from_config(yaml.safe_load(tpl())).export()

    default = _build(lambda: _cached_file(("fcb_bin", dev, rev, mt), obj_bytes), "fcb")[1]
    labels = []
    if len(default) != size:
        raise SkipCase()  # C12's subject (export size)
    if default[:4] != b"FCFB":
        # the default object of this memory type has no tag; a pre-prepared FCB binary starts with it (documented format)
        patched = b"FCFB" + default[4:]
        path, _ = _cached_file(("fcb_patched", dev, rev, mt), lambda: patched)
        return path, patched, ["fcb:tag_patched"]
    if form == "yaml":
        path, _ = _build(lambda: _cached_file(("fcb_yaml", dev, rev, mt), tpl, ".yaml"), "fcb_yaml")
        data = _build(lambda: _cached_file(("fcb_yaml_bytes", dev, rev, mt), tpl_bytes), "fcb_yaml")[1]
        if data[:4] != b"FCFB" or len(data) != size:
            raise SkipCase()
        return path, data, ["fcb:yaml", "form:yaml"]
    if form == "swapped":
        # the byte-swapped storage order (tag CFBF) is accepted as an FCB block: it stays as supplied
        data = bytes(b for i in range(0, len(default), 2) for b in (default[i + 1], default[i]))
        path, _ = _cached_file(("fcb_swapped", dev, rev, mt), lambda: data)
        return path, data, ["fcb:swapped"]
    if form.startswith("random"):
        # a pre-prepared block with the tag and arbitrary register content
        k = int(form[6:] or 0) % 4
        data = b"FCFB" + _stretch(_h("c14fcb", dev, rev, mt, str(k)), size - 4)
        path, _ = _cached_file(("fcb_random", dev, rev, mt, k), lambda: data)
        return path, data, ["fcb:random"]
    path, _ = _cached_file(("fcb_bin", dev, rev, mt), obj_bytes)
    return path, default, labels + ["fcb:bin"]


def _xmcd_payload(dev: str, rev: str, sub_i: int, form: str):
    db = _state()["db"]
    subs = DBI.xmcd_subs(db, dev, rev)
    if not subs:
        raise SkipCase()
    sub = subs[sub_i % len(subs)]
    m, c = sub.split("/")

    def types():
        from spsdk.image.mem_type import MemoryType
        from spsdk.image.xmcd.xmcd import ConfigurationBlockType

        return MemoryType.from_label(m), ConfigurationBlockType.from_label(c)

    def obj_bytes():
        from spsdk.image.xmcd.xmcd import XMCD

        mt_, ct_ = types()
        return XMCD(dev, mt_, ct_, rev).export()

    def tpl():
        from spsdk.image.xmcd.xmcd import XMCD

        mt_, ct_ = types()
        return XMCD.generate_config_template(dev, mt_, ct_, rev)

    def tpl_bytes():
        import yaml
        from spsdk.image.xmcd.xmcd import XMCD

        return XMCD.load_from_config(yaml.safe_load(tpl())).export()

    def tail_bytes():
        # the default block with its last configuration word (and a word in the middle) set: a block whose tail matters
        from spsdk.image.xmcd.xmcd import XMCD

        b = bytearray(obj_bytes())
        if len(b) >= 12:
            b[-4:] = b"\xa5\x5a\xc3\x3c"
            mid = 4 * ((len(b) // 2) // 4)
            if mid >= 8:
                b[mid : mid + 4] = b"\x11\x22\x33\x44"
        back = XMCD.parse(bytes(b), family=dev, revision=rev)
        if bytes(back.export()) != bytes(b):  # the area itself does not keep these bytes: not a payload to judge the merge with
            raise SkipCase()
        return bytes(b)

    if form == "tail":
        path, data = _build(lambda: _cached_file(("xmcd_tail", dev, rev, sub), tail_bytes), "xmcd")
        return path, data, ["xmcd:" + sub, "form:tail"]
    if form == "yaml":
        path, _ = _build(lambda: _cached_file(("xmcd_yaml", dev, rev, sub), tpl, ".yaml"), "xmcd_yaml")
        data = _build(lambda: _cached_file(("xmcd_yaml_bytes", dev, rev, sub), tpl_bytes), "xmcd_yaml")[1]
        return path, data, ["xmcd:" + sub, "form:yaml"]
    path, data = _build(lambda: _cached_file(("xmcd_bin", dev, rev, sub), obj_bytes), "xmcd")
    return path, data, ["xmcd:" + sub]


def _mbi_payload(dev: str, rev: str, variant: int, form: str = "bin"):
    from vf.gen import mbi as GM

    db = _state()["db"]
    images = DBI.mbi_images(db, dev, rev)
    choices = [(t, a) for t in ("xip", "load_to_ram") for a in ("plain", "crc") if a in images.get(t, [])]
    if not choices:
        raise SkipCase()
    target, auth = choices[variant % min(len(choices), 2)]

    def build():
        cls = GM.find_class(dev, target, auth, rev)
        case = GM.default_case(cls, salt=14)
        root = os.path.join(_workdir(), "mbi_%s_%s_%s_%s" % (dev, rev, target, auth))
        b = GM.materialise(case, root)
        _obj, data = GM.export_like_nxpimage(b.config_path)
        shutil.rmtree(root, ignore_errors=True)
        return data

    path, data = _build(lambda: _cached_file(("mbi", dev, rev, target, auth), build), "mbi")
    cls = GM.find_class(dev, target, auth, rev)
    labels = ["mbi:%s_%s" % (auth, target)]
    if form == "config":
        # the segment named by its image configuration (built per process: a folder of files, nothing random goes into plain / CRC images)
        key = ("mbi_cfg", dev, rev, target, auth)
        if key not in _P:
            root = os.path.join(_workdir(), "mbicfg_%s_%s_%s_%s" % (dev, rev, target, auth))
            _P[key] = _build(lambda: GM.materialise(GM.default_case(cls, salt=14), root).config_path, "mbi_config")
        path = _P[key]
        labels.append("app_form:config")
    if "ExportMixinAppFcf" in cls["mixins"]:
        labels.append("mbi:appfcf")
    return path, data, labels


def _ahab_payload(dev: str, rev: str, variant: int, form: str = "bin"):
    v = variant % 3  # 8704 / 9728 / 9216 B: the last one ends on the 1 KiB alignment of the floating container behind it

    def build():
        from spsdk.image.ahab.ahab_image import AHABImage
        from spsdk.utils.schema_validator import check_config

        app = _stretch(b"c14ahab%d" % v, (512, 1300, 1024)[v])
        app_path = os.path.join(_workdir(), "ahab_app_%d.bin" % v)
        with open(app_path, "wb") as f:
            f.write(app)
        schemas = AHABImage.get_validation_schemas(dev, rev)
        core = _first_enum(schemas, "core_id") or "cortex-m33"
        cfg = {"family": dev, "revision": rev, "target_memory": "standard", "output": "ahab.bin", "containers": [{"container": {
            "srk_set": "none", "fuse_version": 0, "sw_version": 0, "images": [{
                "image_path": app_path, "image_offset": 0x2000, "load_address": 0x1FFE0000, "entry_point": 0x1FFE0000,
                "image_type": "executable", "core_id": core, "is_encrypted": False, "hash_type": "sha256" if v != 1 else "sha384"}]}}]}
        check_config(cfg, schemas, search_paths=[_workdir()])
        img = AHABImage.load_from_config(cfg, search_paths=[_workdir()])
        img.update_fields()
        _P[("ahab_cfg_dict", dev, rev, v)] = cfg
        return img.export()

    path, data = _build(lambda: _cached_file(("ahab", dev, rev, v), build), "ahab")
    labels = ["ahab:v%d" % v] + (["ahab:ends_aligned"] if len(data) % 1024 == 0 else [])
    if form == "config":
        key = ("ahab_cfg", dev, rev, v)
        if key not in _P:
            import yaml

            if ("ahab_cfg_dict", dev, rev, v) not in _P:
                _build(build, "ahab_config")  # another process published the binary: make this process's copy of the inputs
            cpath = os.path.join(_workdir(), "ahab_cfg_%s_%s_%d.yaml" % (dev, rev, v))
            with open(cpath, "w", encoding="utf-8") as f:
                yaml.safe_dump(_P[("ahab_cfg_dict", dev, rev, v)], f)
            _P[key] = cpath
        path = _P[key]
        labels.append("app_form:config")
    return path, data, labels


def _first_enum(schemas, key: str):
    """First enumeration value a validation schema offers for `key` (depth-first)."""
    def walk(x):
        if isinstance(x, dict):
            if key in x and isinstance(x[key], dict) and x[key].get("enum"):
                tv = x[key].get("template_value")
                return tv if tv in x[key]["enum"] else x[key]["enum"][0]
            for v in x.values():
                r = walk(v)
                if r is not None:
                    return r
        elif isinstance(x, list):
            for v in x:
                r = walk(v)
                if r is not None:
                    return r
        return None

    return walk(schemas)


def _app_payload(name: str, dev: str, rev: str, variant: int, form: str = "bin"):
    kind = APP_KIND[name]
    if kind == "mbi":
        return _mbi_payload(dev, rev, variant, form)
    if kind == "ahab":
        return _ahab_payload(dev, rev, variant + (1 if name == "secondary_image_container_set" else 0), form)
    files = {"hab": HAB_FILES, "sb21": SB21_FILES, "sb31": SB31_FILES}[kind]
    fn = files[variant % len(files)]
    path, data = _cached_file(("fix", fn), lambda: _fixture(fn))
    return path, data, ["%s:%s" % (kind, fn.split(".")[0])]


# ====================================================================== materialise a case
class Mat:
    def __init__(self) -> None:
        self.cfg: dict = {}
        self.pay: dict = {}  # segment name -> bytes expected at the segment's place
        self.labels: list = []
        self.dir = ""
        self.app_name = None
        self.problems: list = []


def _materialise(case, tab: L.Table) -> Mat:
    dev, rev, mt = case["dev"], case["rev"], case["mt"]
    m = Mat()
    _S["n_case"] = _S.get("n_case", 0) + 1
    m.dir = os.path.join(_workdir(), "case%d" % _S["n_case"])
    shutil.rmtree(m.dir, ignore_errors=True)
    os.makedirs(m.dir)
    cfg = {"family": dev, "revision": "latest" if case.get("rev_latest") else rev, "memory_type": mt, "init_offset": case.get("init", 0)}
    segs = case.get("segs") or {}
    for name in tab.names:
        spec = segs.get(name)
        key = L.CFG_KEY.get(name, name)
        if name in L.VALUE_SEGMENTS:
            v = None if spec is None else int(spec["v"])
            if v is not None:
                cfg[key] = v
            m.pay[name] = L.image_version_bytes(name, v)
            continue
        if spec is None:
            continue
        if name in L.RAW_SEGMENTS:
            n = int(spec["n"])
            gap = tab.gap(name)
            w = L.NOMINAL_SIZE[name]
            if gap is not None and w > gap:
                # the table itself leaves less room than the block's fixed size: a verdict (c), and the case goes on with what fits
                m.problems.append("table of %s/%s/%s leaves 0x%x bytes for %s, whose fixed size is 0x%x: a regular block overwrites the next segment" % (
                    dev, rev, mt, gap, name, w))
                n = min(n, gap)
            if n < 1 or (gap is not None and n > gap):
                raise HarnessError("generator produced size %d for %s (gap %s)" % (n, name, gap))
            data = _raw_payload(spec["seed"], n, L.NOMINAL_SIZE[name])
            path = os.path.join(m.dir, name + ".bin")
            with open(path, "wb") as f:
                f.write(data)
            cfg[key] = path
            m.pay[name] = data
            m.labels.append("size:short" if n < w else "size:nominal" if n == w else "size:over")
            if gap is not None and n == gap and n != w:
                m.labels.append("size:gap")
        elif name in ("fcb", "fcb_xspi"):
            path, data, labs = _fcb_payload(dev, rev, mt, name, spec.get("form", "bin"))
            cfg[key], m.pay[name] = path, bytes(data)
            m.labels += labs
        elif name == "xmcd":
            path, data, labs = _xmcd_payload(dev, rev, int(spec.get("sub", 0)), spec.get("form", "bin"))
            cfg[key], m.pay[name] = path, bytes(data)
            m.labels += labs
        elif name in L.APP_SEGMENTS:
            path, data, labs = _app_payload(name, dev, rev, int(spec.get("variant", 0)), spec.get("form", "bin"))
            cfg[key], m.pay[name] = path, bytes(data)
            m.labels += labs
            m.labels.append("app:" + APP_KIND[name])
            if name != "secondary_image_container_set":
                m.app_name = name
        else:
            raise HarnessError("segment kind %r of %s/%s/%s is unknown to the check (new kind in the database?)" % (name, dev, rev, mt))
    m.cfg = cfg
    return m


# ====================================================================== the oracle
def _diff(a: bytes, b: bytes) -> str:
    if len(a) != len(b):
        return "lengths %d / %d" % (len(a), len(b))
    idx = [i for i in range(len(a)) if a[i] != b[i]]
    if not idx:
        return "equal"
    return "%d bytes differ, first at 0x%x: got %s want %s" % (len(idx), idx[0], a[idx[0] : idx[0] + 8].hex(), b[idx[0] : idx[0] + 8].hex())


def _find(data: bytes, payload: bytes) -> str:
    if len(payload) < 4:
        return "?"
    i = data.find(payload)
    return "0x%x" % i if i >= 0 else "nowhere"


def _init_label(tab: L.Table, req, eff: int) -> str:
    if eff == 0:
        return "init:0"
    at = [n for n in tab.names if tab.is_static(n) and tab.static_offset(n) == eff]
    if any(n in L.APP_SEGMENTS for n in at):
        return "init:app"
    if any(n.startswith("fcb") for n in at):
        return "init:fcb"
    return "init:other"


def run_case(case, o: Oracle) -> None:
    tab = _table(case)
    dev, rev, mt = case["dev"], case["rev"], case["mt"]
    tname = "%s/%s/%s" % (dev, rev, mt)
    req = case.get("init", 0)
    try:
        eff = tab.effective_init(req)
    except L.LayoutError as exc:
        raise HarnessError("generator produced initial offset %r for %s: %s" % (req, tname, exc))
    m = _materialise(case, tab)
    try:
        _evaluate(case, o, tab, m, eff, tname)
    finally:
        shutil.rmtree(m.dir, ignore_errors=True)


def _evaluate(case, o: Oracle, tab: L.Table, m: Mat, eff: int, tname: str) -> None:
    dev, rev, mt = case["dev"], case["rev"], case["mt"]
    req = case.get("init", 0)
    placed = tab.place({n: len(b) for n, b in m.pay.items()}, eff)
    if placed.overlaps:
        # raw blocks are cut to their gap, so what overlaps here are fixed-format payloads (FCB, XMCD, version word) the table leaves no room for
        o.label("table_overlap")
        o.fail("no_overlap", "table_overlap", "%s: the table puts regular payloads on top of each other: %s" % (
            tname, [(a, placed.pos[a], placed.length[a], b, placed.pos[b]) for a, b in placed.overlaps]))
        return
    want = placed.image(m.pay, tab.pattern)
    present = placed.order()
    header_only = not any(n in L.APP_SEGMENTS for n in present)

    o.label("mt:" + mt, _init_label(tab, req, eff), "pattern:" + tab.pattern, "init_as:%s" % ("name" if isinstance(req, str) else "number"))
    o.label(*m.labels)
    if eff > 0:
        o.label("init>0")
    if isinstance(req, int) and req not in (0, eff):
        o.label("init:rounded")
    if len(present) >= 2:
        o.label("segs>=2")
    if any(not tab.is_static(n) for n in present):
        o.label("floating")
    if header_only:
        o.label("header_only")
    if eff > 0 and any(n in L.APP_SEGMENTS and tab.is_static(n) and placed.total > tab.static_offset(n) for n in present):
        # the image is long enough to have bytes at the place the application has in an image that starts at 0
        o.label("shadow_risk")
    if case.get("rev_latest"):
        o.label("rev:latest")
    o.nontrivial(len(present) >= 2 or eff > 0)
    o.key(("c14", tname, repr(sorted((k, repr(v)) for k, v in case.items() if k not in ("dev", "rev", "mt")))))
    o.sample({"tuple": tname, "init": req, "segments": {n: [placed.pos[n], placed.length[n]] for n in present}, "length": placed.total})
    for p in m.problems:
        o.fail("no_overlap", "table_gap", p)
    if not present:
        o.nontrivial(False)
        return

    # ------------------------------------------------------------------ merge (nxpimage bootable-image merge)
    bimg = data = None
    BootableImage = MemoryType = None
    with o.spsdk("merge", "import"):
        from spsdk.image.bootable_image.bimg import BootableImage
        from spsdk.image.mem_type import MemoryType
    if BootableImage is None:
        return
    with o.spsdk("merge", "load_from_config"):
        # mapping keys in an order picked with the case (a mapping has none)
        bimg = BootableImage.load_from_config(reorder(dict(m.cfg), int(case_digest(case)[:8], 16)), search_paths=[m.dir])
    if bimg is None and isinstance(req, str):
        # the name form was refused (recorded above); the remaining oracles are evaluated with the same offset as a number
        with o.spsdk("merge", "load_from_config_after_name_refused"):
            bimg = BootableImage.load_from_config(dict(m.cfg, init_offset=eff), search_paths=[m.dir])
    if bimg is None:
        return
    with o.spsdk("merge", "export"):
        data = bytes(bimg.image_info().export())
        again = bytes(bimg.image_info().export())
        o.check("merge", again == data, "export_not_repeatable", "%s: the second export of the same object differs (%s)" % (tname, _diff(data, again)))
    o.artifact("want_layout", {n: [placed.pos[n], placed.length[n]] for n in present})
    # (init) the initial offset the object reports
    with o.spsdk("init_offset", "property"):
        o.check("init_offset", bimg.init_offset == eff, "effective", "%s: init_offset %r requested, object starts at 0x%x, table says 0x%x" % (
            tname, req, bimg.init_offset, eff))
    # (a') offsets the object reports for its segments
    with o.spsdk("segment_offset", "get_segment_offset"):
        got_off = {s.NAME.label: bimg.get_segment_offset(s) for s in bimg.segments}
        bad = {n: (got_off.get(n), placed.pos[n]) for n in present if got_off.get(n) != placed.pos[n]}
        o.check("segment_offset", not bad, "reported", "%s init %r: (reported, table) offsets differ: %s" % (tname, req, {k: v for k, v in list(bad.items())[:4]}))
        extra = sorted(set(got_off) - set(present))
        o.check("segment_offset", not extra, "unsupplied_segment_present", "%s: segments %s are reported present but were not supplied / lie before the initial offset" % (tname, extra))
    if data is None:
        return
    # (c) length
    o.check("length", len(data) == placed.total, "image_length", "%s init %r: image has %d bytes, last segment ends at %d" % (tname, req, len(data), placed.total))
    # (a) every supplied segment at its place
    for n in present:
        p, ln = placed.pos[n], placed.length[n]
        if data[p : p + ln] != m.pay[n]:
            kind = "floating" if not tab.is_static(n) else "static"
            o.fail("placement", "%s:%s" % (kind, _seg_class(n)), "%s init %r: segment %s (%d bytes) is not at 0x%x (found at %s); %s" % (
                tname, req, n, ln, p, _find(data, m.pay[n]), _diff(data[p : p + ln], m.pay[n])))
            break
    # (b) fill pattern everywhere else
    k = min(len(data), len(want))
    spans = placed.owner_map()
    pos = 0
    bad_fill = None
    for s, e, _n in spans + [(k, k, "")]:
        s2 = min(s, k)
        if pos < s2 and data[pos:s2] != want[pos:s2]:
            i = next(i for i in range(pos, s2) if data[i] != want[i])
            bad_fill = (i, data[i], want[i])
            break
        pos = max(pos, min(e, k))
    if bad_fill:
        o.fail("fill", "pattern:" + tab.pattern, "%s init %r: byte 0x%x outside every segment is 0x%02x, fill pattern '%s' says 0x%02x" % (
            tname, req, bad_fill[0], bad_fill[1], tab.pattern, bad_fill[2]))
    if o.fails:
        o.artifact("image_head", data[:64])
    # (c') the initial offset is a property of the object: moved back to 0 afterwards, the object gives the full image with every
    # supplied segment (also those that lay before the offset it was loaded with)
    if eff > 0 and not o.fails:
        with o.spsdk("init_offset", "lowered_afterwards"):
            bimg.init_offset = 0
            full = bytes(bimg.image_info().export())
            placed0 = tab.place({n: len(b) for n, b in m.pay.items()}, 0)
            if not placed0.overlaps:
                want0 = placed0.image(m.pay, tab.pattern)
                o.check("init_offset", full == want0, "lowered_afterwards", "%s: loaded with init offset %r, then set to 0: %s" % (tname, req, _diff(full, want0)))
                o.label("init_offset_lowered")
            bimg.init_offset = eff
    if header_only:
        return  # parse() of an image without application is not documented

    # ------------------------------------------------------------------ (d) parse (nxpimage bootable-image parse)
    if eff != 0 and eff not in tab.init_candidates():
        return  # an image starting at another segment is not one parse() is documented to locate
    rev_arg = "latest" if case.get("rev_latest") else rev
    expect = {}
    for n in present:
        v = L.parsed_view(n, placed, want)
        if v is not None:
            expect[n] = v
    o.label("parse:mem_type")
    parsed = _parse(o, BootableImage, data, dev, MemoryType.from_label(mt), rev_arg, eff, tname, req, "with_mem_type")
    if parsed is not None:
        _compare_parsed(o, parsed, expect, present, eff, tname, req, "with_mem_type")
    if case.get("no_mt", True):
        o.label("parse:no_mem_type")
        parsed2 = _parse(o, BootableImage, data, dev, None, rev_arg, eff, tname, req, "without_mem_type")
        if parsed2 is not None:
            with o.spsdk("parse", "without_mem_type"):
                got_mt = parsed2.mem_type.label
            other = _state()["index"].get((dev, rev, got_mt))
            otab = _state()["tables"][other] if other is not None else None
            if otab is not None and otab.key() == tab.key():
                _compare_parsed(o, parsed2, expect, present, eff, tname, req, "without_mem_type")
            elif otab is not None and eff == 0 and all(n in otab.raw and otab.raw[n] == tab.raw[n] for n in present):
                # another memory type that puts every merged segment at the same place: the same bytes must come back
                o.label("parse:other_mem_type_same_places")
                _compare_parsed(o, parsed2, expect, present, eff, tname, req, "without_mem_type", extras=False)
            else:
                o.label("parse:ambiguous_mem_type")
    # ------------------------------------------------------------------ (e) the commands: parse stores the parts, merge of what was stored gives the image again
    # Only for images made of application containers: the configuration parse writes for the other segment kinds is a re-description
    # (FCB / XMCD as YAML, version word as a number, raw blocks cut to their window) that merge does not turn into the same bytes
    # in general, and the property does not say it should.
    if parsed is not None and not o.fails and DBI.is_latest(_state()["db"], dev, rev) and all(n in L.APP_SEGMENTS for n in present) \
            and (len(present) >= 2 or hashlib.sha256(repr(sorted(case.items(), key=str)).encode()).digest()[0] % 4 == 0):
        _commands_roundtrip(o, data, dev, mt, m.dir, tname, req)


def _commands_roundtrip(o: Oracle, data: bytes, dev: str, mt: str, wd: str, tname: str, req) -> None:
    """`nxpimage bootable-image parse -f .. -m .. -b image -o dir` followed by `nxpimage bootable-image merge -c dir/<stored>.yaml -o again`."""
    import glob

    from click.testing import CliRunner

    from spsdk.apps import nxpimage

    src = os.path.join(wd, "cli_image.bin")
    with open(src, "wb") as f:
        f.write(data)
    out = os.path.join(wd, "cli_parsed")
    again = os.path.join(wd, "cli_again.bin")
    o.label("commands")
    res = CliRunner().invoke(nxpimage.main, ["bootable-image", "parse", "-f", dev, "-m", mt, "-b", src, "-o", out], catch_exceptions=True)
    if res.exit_code != 0:
        o.fail("commands", "parse_exit:%s" % res.exit_code, "%s init %r: %s %s" % (tname, req, (res.output or "")[-300:], repr(res.exception)[:200]))
        return
    cfgs = glob.glob(os.path.join(out, "bootable_image_*.yaml"))
    if len(cfgs) != 1:
        o.fail("commands", "stored_configuration", "%s: parse stored %d bootable image configurations in %s" % (tname, len(cfgs), sorted(os.listdir(out))[:12]))
        return
    # the stored configuration names the AHAB sub-configuration relative to the output folder and SPSDK looks its image files up
    # relative to the working directory: the merge is run from the folder parse wrote (observation, see DESIGN.md 9.3)
    cwd = os.getcwd()
    try:
        os.chdir(out)
        res = CliRunner().invoke(nxpimage.main, ["bootable-image", "merge", "-c", cfgs[0], "-o", again], catch_exceptions=True)
    finally:
        os.chdir(cwd)
    if res.exit_code != 0:
        # the property says nothing about configurations that parse writes and merge refuses (observed: an absent optional segment is
        # stored as an empty path that the merge schema rejects): no image, no verdict
        o.label("commands:merge_refused")
        return
    o.label("commands:merged_again")
    with open(again, "rb") as f:
        got = f.read()
    o.check("commands", got == data, "parse_then_merge_differs", "%s init %r: image merged from what parse stored: %d bytes, original %d; %s" % (tname, req, len(got), len(data), _diff(got, data)))


def _seg_class(n: str) -> str:
    if n in L.RAW_SEGMENTS:
        return "raw"
    if n in L.VALUE_SEGMENTS:
        return "image_version"
    if n in L.APP_SEGMENTS:
        return "app"
    return n


def _parse(o: Oracle, BootableImage, data: bytes, dev: str, mem_type, rev_arg: str, eff: int, tname: str, req, how: str):
    """BootableImage.parse as `nxpimage bootable-image parse` calls it; a refusal is recorded with the reason the segment
    parsers / verifier give for the interpretation the image was made with (diagnosis only, not part of the verdict)."""
    try:
        return BootableImage.parse(data, family=dev, mem_type=mem_type, revision=rev_arg)
    except Exception as exc:  # noqa: BLE001 - every exception is a failure of this sub-oracle
        diag = ""
        if mem_type is not None:
            try:
                probe = BootableImage(dev, mem_type, rev_arg, eff)
                probe._parse(data)
                ver = probe.verify()
                diag = "segments parse, verifier: " + " / ".join(x.strip() for x in ver.draw(colorize=False).splitlines() if "rror" in x)[:300] if ver.has_errors else "this interpretation parses and verifies"
            except Exception as exc2:  # noqa: BLE001
                diag = "%s: %s" % (type(exc2).__name__, str(exc2)[:200])
        o.fail("parse", "%s:exc:%s" % (how, type(exc).__name__), "%s init %r (%d bytes): %s%s" % (
            tname, req, len(data), str(exc)[:200], " | made-with interpretation (init 0x%x): %s" % (eff, diag) if diag else ""), where=spsdk_frame(exc))
        return None


def _compare_parsed(o: Oracle, parsed, expect: dict, present: list, eff: int, tname: str, req, how: str, extras: bool = True) -> None:
    with o.spsdk("parse_segments", how):
        got = {s.NAME.label: bytes(s.export()) for s in parsed.segments}
        if parsed.init_offset != eff:
            # one root cause, one record: the segments of a wrongly located image are not compared
            o.fail("parse_init_offset", how, "%s init %r: image starts at 0x%x, parse decided 0x%x and reports %s" % (
                tname, req, eff, parsed.init_offset, {k: len(v) for k, v in got.items()}))
            return
        for n in present:
            if n not in expect:
                continue
            if n not in got:
                o.fail("parse_segments", "missing:%s:%s" % (_seg_class(n), how), "%s init %r: supplied segment %s is not in the parsed image (has %s)" % (tname, req, n, sorted(got)))
                break
            if got[n] != expect[n]:
                o.fail("parse_segments", "bytes:%s:%s" % (_seg_class(n), how), "%s init %r: segment %s comes back changed: %s" % (tname, req, n, _diff(got[n], expect[n])))
                break
        extra = sorted(set(got) - set(present)) if extras else []
        o.check("parse_segments", not extra, "extra:" + how, "%s init %r: parse reports segments that were not merged: %s" % (tname, req, extra))


# ====================================================================== part 1: enumeration of the database tuples
def _nominal_segs(tab: L.Table, salt: bytes, only_app: bool = False) -> dict:
    segs: dict = {}
    r = int.from_bytes(salt[:8], "big")
    for j, name in enumerate(tab.names):
        if name in L.APP_SEGMENTS:
            segs[name] = {"variant": (r >> 3) % 4}
        elif only_app:
            continue
        elif name in L.VALUE_SEGMENTS:
            segs[name] = {"v": 1 + (r >> 5) % 0xFFFE}
        elif name in L.RAW_SEGMENTS:
            segs[name] = {"n": L.NOMINAL_SIZE[name], "seed": (r + j) & 0xFFFFFFFF}
        elif name.startswith("fcb"):
            segs[name] = {"form": ("bin", "bin", "swapped", "random0")[(r >> 11) % 4]}
        elif name == "xmcd":
            segs[name] = {"form": ("bin", "tail")[(r >> 13) % 2], "sub": r % 8}
    return segs


def _subcases(i: int, tier: str = "thorough") -> list:
    """A: all segments / init 0;  B: all segments / each initial-segment offset;  D: a number just below the first such
    offset (rounds up);  C: application only.  The quick tier evaluates C and D on one tuple per table class plus a fixed
    quarter of the others (A and B on every tuple)."""
    s = _state()
    t, tab = s["tuples"][i], s["tables"][i]
    salt = _h("c14", t["dev"], t["rev"], t["mt"])
    base = {"dev": t["dev"], "rev": t["rev"], "mt": t["mt"]}
    out = [dict(base, init=0, segs=_nominal_segs(tab, salt))]
    cands = tab.init_candidates()
    for k, c in enumerate(cands):
        init = c
        if (salt[8] + k) % 2:
            at = [n for n in tab.names if n in L.INIT_SEGMENTS and tab.is_static(n) and tab.static_offset(n) == c]
            init = at[0]
        out.append(dict(base, init=init, segs=_nominal_segs(tab, salt)))
    extra = tier != "quick" or i in s["reps"] or salt[9] % 4 == 0
    if cands and extra:
        out.append(dict(base, init=cands[0] - 1, segs=_nominal_segs(tab, salt), no_mt=False))
    if len(tab.names) > 1 and extra:
        out.append(dict(base, init=0, segs=_nominal_segs(tab, salt, only_app=True)))
    return out


N_BUCKETS = 16


def _item_cost(c: dict, tab: L.Table) -> int:
    """Rough relative cost of a sub-case (XMCD objects are by far the slowest thing the parsers build)."""
    w = 2 + (1 if c.get("no_mt") else 0)
    if "xmcd" in (c.get("segs") or {}) and c.get("init", 0) == 0:
        w += 10 + (12 if c.get("no_mt") else 0)
    return w


def _enum_items(tier: str) -> list:
    """All sub-cases of all tuples, ordered so that the runner's strided sharding (item i -> shard i mod n, n | 16) keeps
    the tuples of one (device, revision) in one worker (its payloads are built once) and spreads the expensive ones."""
    key = "items:" + ("quick" if tier == "quick" else "thorough")
    if key not in _S:
        s = _state()
        groups: dict = {}
        cost: dict = {}
        for i, t in enumerate(s["tuples"]):
            tab = s["tables"][i]
            cheap = "xmcd" not in tab.names
            for c in _subcases(i, tier):
                if "no_mt" not in c:
                    c["no_mt"] = cheap or i in s["reps"] or tier != "quick"
                g = (t["dev"], t["rev"])
                groups.setdefault(g, []).append(c)
                cost[g] = cost.get(g, 0) + _item_cost(c, tab)
        buckets: list = [[] for _ in range(N_BUCKETS)]
        load = [0] * N_BUCKETS
        for g in sorted(groups, key=lambda g: (-cost[g], g)):
            b = load.index(min(load))
            buckets[b].extend(groups[g])
            load[b] += cost[g]
        items = []
        while any(buckets):
            for b in range(N_BUCKETS):
                src = buckets[b] if buckets[b] else max(buckets, key=len)
                if src:
                    items.append(src.pop(0))
        _S[key] = items
    return _S[key]


def _enum_count(tier: str) -> int:
    return len(_enum_items(tier))


def _enum_item(tier: str, i: int):
    return dict(_enum_items(tier)[i])


# ====================================================================== part 2: Hypothesis over subsets / sizes / initial offsets
def _size_strategy(window: int, gap):
    top = gap if gap is not None else 4 * window
    picks = [window, window, window, 1, window - 1, top]
    if window + 1 <= top:
        picks.append(window + 1)
    return st.one_of(st.sampled_from(picks), st.integers(1, top))


def _layout_strategy():
    s = _state()
    # table classes with more segments have more to vary: they are drawn more often
    classes = []
    for members in s["classes"]:
        k = len(s["tables"][members[0]].names)
        classes += [members] * (1 if k == 1 else 3 if k <= 3 else 6)

    @st.composite
    def build(draw):
        members = classes[draw(st.integers(0, len(classes) - 1))]
        i = members[draw(st.integers(0, len(members) - 1))]
        t, tab = s["tuples"][i], s["tables"][i]
        case = {"dev": t["dev"], "rev": t["rev"], "mt": t["mt"]}
        segs: dict = {}
        app_names = [n for n in tab.names if n in L.APP_SEGMENTS]
        can_skip_app = all(APP_KIND[n] in ("mbi", "ahab") for n in app_names)
        for name in tab.names:
            if name in L.APP_SEGMENTS:
                if name == "secondary_image_container_set":
                    # without its predecessor the floating container lands on the predecessor's offset: not a distinct input
                    present = "primary_image_container_set" in segs and draw(st.integers(0, 3)) > 0
                else:
                    present = not (can_skip_app and len(tab.names) > 1) or draw(st.sampled_from([True] * 11 + [False]))
                if present:
                    segs[name] = {"variant": draw(st.integers(0, 3)), "form": draw(st.sampled_from(["bin", "bin", "bin", "config"]))}
                continue
            if name in L.VALUE_SEGMENTS:
                if draw(st.booleans()):
                    top = 0xFFFFFFFF if name == "image_version" else 0xFFFF
                    segs[name] = {"v": draw(st.one_of(st.sampled_from([0, 1, top]), st.integers(0, top)))}
                continue
            # XMCD objects are slow (the area deep-copies its database record on every register access): supplied less often here,
            # part 'tuples' has one on every tuple whose table has the segment
            if draw(st.integers(0, 2)) == 0 or (name == "xmcd" and draw(st.integers(0, 2)) != 0):
                continue
            if name in L.RAW_SEGMENTS:
                segs[name] = {"n": draw(_size_strategy(L.NOMINAL_SIZE[name], tab.gap(name))), "seed": draw(st.integers(0, (1 << 32) - 1))}
            elif name.startswith("fcb"):
                segs[name] = {"form": draw(st.sampled_from(["bin", "bin", "yaml", "swapped", "random0", "random1", "random2", "random3"]))}
            elif name == "xmcd":
                segs[name] = {"form": draw(st.sampled_from(["bin", "tail", "tail", "yaml"])), "sub": draw(st.integers(0, 7))}
            else:
                raise HarnessError("segment kind %r is unknown to the check" % name)
        case["segs"] = segs
        statics = tab.static_offsets()
        mode = draw(st.sampled_from(["zero", "zero", "cand", "cand", "name", "number"]))
        init = 0
        if mode == "cand" and tab.init_candidates():
            init = draw(st.sampled_from(tab.init_candidates()))
        elif mode == "name":
            init = draw(st.sampled_from([n for n in tab.names if tab.is_static(n)]))
        elif mode == "number" and statics[-1] > 0:
            init = draw(st.integers(1, statics[-1]))
        case["init"] = init
        if DBI.is_latest(s["db"], t["dev"], t["rev"]) and draw(st.integers(0, 3)) == 0:
            case["rev_latest"] = True
        # parse without memory type tries every memory type of the family: drawn less often where that is slowest (XMCD)
        case["no_mt"] = draw(st.sampled_from([True, False, False] if "xmcd" not in segs else [True] + [False] * 7))
        return case

    return build()


def run_layout(case, o: Oracle) -> None:
    tab = _table(case)
    segs = dict(case.get("segs") or {})
    # a raw block shorter than its window must not end the image (the window would run past the end): give it its nominal size
    eff = tab.effective_init(case.get("init", 0))
    inc = [n for n in tab.included(eff) if n in segs and n not in L.VALUE_SEGMENTS]
    if inc and inc[-1] in L.RAW_SEGMENTS and segs[inc[-1]]["n"] < L.NOMINAL_SIZE[inc[-1]]:
        segs[inc[-1]] = dict(segs[inc[-1]], n=L.NOMINAL_SIZE[inc[-1]])
        case = dict(case, segs=segs)
    run_case(case, o)


# ====================================================================== stored images of an earlier release
# (directory under fixtures/c14/golden, device, memory type, initial offset, image_version value, segment files,
#  frozen copy of the segment table the image was made with)
GOLDEN = [
    ("rt595_xip_crc", "mimxrt595s", "flexspi_nor", 0, 4696, {"keyblob": "keyblob.bin", "fcb": "fcb.bin", "keystore": "keystore.bin", "mbi": "mbi.bin"},
     {"segments": {"keyblob": 0x0, "fcb": 0x400, "image_version": 0x600, "keystore": 0x800, "mbi": 0x1000}}),
    ("rt1189_no_xmcd", "mimxrt1189", "flexspi_nor", 0, None, {"fcb": "fcb.bin", "ahab_container": "ahab_container.bin"},
     {"segments": {"keyblob": 0x0, "fcb": 0x400, "xmcd": 0x800, "ahab_container": 0x1000}}),
    ("mcxn947_starting_fcb", "mcxn947", "flexspi_nor", 1024, 0, {"fcb": "fcb.bin", "mbi": "mbi.bin"},
     {"segments": {"fcb": 0x400, "image_version_ap": 0x600, "mbi": 0x1000}, "image_pattern": "ones"}),
    ("rt1064_bee", "mimxrt1064", "flexspi_nor", 0, None, {"fcb": "fcb.bin", "bee_header_0": "bee_header_0.bin", "bee_header_1": "bee_header_1.bin",
                                                       "hab_container": "hab_container.bin"},
     {"segments": {"fcb": 0x0, "bee_header_0": 0x400, "bee_header_1": 0x800, "hab_container": 0x1000}}),
]


def _golden_files(g) -> tuple:
    d = os.path.join(FIX, "golden", g[0])
    pay = {}
    for n, fn in g[5].items():
        with open(os.path.join(d, fn), "rb") as f:
            pay[n] = f.read()
    with open(os.path.join(d, "merged_image.bin"), "rb") as f:
        return d, pay, f.read()


def calibrate(ctx) -> None:
    """The layout reader (placement, fill, initial offset, image-version words) reproduces bootable images stored by an
    earlier release from their stored segments, using frozen copies of the tables they were made with: a misreading of
    the format shows up here and not as a verdict."""
    for g in GOLDEN:
        _d, pay, golden = _golden_files(g)
        tab = L.Table(g[6])
        for n in tab.names:
            if n in L.VALUE_SEGMENTS:
                pay[n] = L.image_version_bytes(n, g[4])
        placed = tab.place({n: len(b) for n, b in pay.items()}, tab.effective_init(g[3]))
        img = placed.image(pay, tab.pattern)
        if placed.overlaps or img != golden:
            raise HarnessError("calibration: layout reader does not reproduce fixtures/c14/golden/%s (%s)" % (g[0], _diff(img, golden)))
        for n in placed.order():
            v = L.parsed_view(n, placed, img)
            if v is None or not (v == pay[n] or v.startswith(pay[n])):
                raise HarnessError("calibration: reader view of %s in %s is wrong" % (n, g[0]))


def _golden_count(tier: str) -> int:
    return len(GOLDEN)


def run_golden(case, o: Oracle) -> None:
    """Regression anchor: merging the stored segments reproduces the image an earlier release made from them (pins the
    database offsets and fill patterns of these devices to artifacts that predate the tree under test)."""
    g = next((x for x in GOLDEN if x[0] == case["golden"]), None)
    if g is None:
        raise HarnessError("unknown golden %r" % (case,))
    d, pay, golden = _golden_files(g)
    db = _state()["db"]
    if g[1] not in db.devices:
        raise SkipCase()
    cfg = {"family": g[1], "revision": "latest", "memory_type": g[2], "init_offset": g[3]}
    if g[4] is not None:
        cfg["image_version"] = g[4]
    for n, fn in g[5].items():
        cfg[L.CFG_KEY.get(n, n)] = os.path.join(d, fn)
    o.label("golden", "mt:" + g[2])
    o.nontrivial(True)
    o.key(("golden", g[0]))
    o.sample({"golden": g[0], "segments": sorted(pay)})
    with o.spsdk("golden", "merge"):
        from spsdk.image.bootable_image.bimg import BootableImage

        data = bytes(BootableImage.load_from_config(cfg, search_paths=[d]).image_info().export())
        o.check("golden", data == golden, "stored_image", "%s/%s: merging the stored segments of fixtures/c14/golden/%s differs from the stored image: %s" % (
            g[1], g[2], g[0], _diff(data, golden)))


# ====================================================================== parts
def parts(ctx):
    s = _state()
    s["work"] = ctx.work
    s["tier"] = ctx.tier
    try:  # imports, database and schema files are loaded once here; the forked workers inherit them
        from spsdk.utils.database import DatabaseManager, get_schema_file

        DatabaseManager()
        import spsdk.image.ahab.ahab_image, spsdk.image.bootable_image.bimg, spsdk.image.fcb.fcb, spsdk.image.xmcd.xmcd  # noqa: F401,E401
        import spsdk.image.mbi.mbi  # noqa: F401

        for f in ("general", "bootable_image", "fcb", "xmcd", "mbi", "ahab"):
            get_schema_file(f)
    except Exception:  # noqa: BLE001 - a broken tree shows up as failures of the cases, not here
        pass
    return [
        EnumPart("golden", _golden_count, lambda tier, i: {"golden": GOLDEN[i][0]}, run_golden),
        EnumPart("tuples", _enum_count, _enum_item, run_case),
        HypPart("layouts", _layout_strategy, run_layout, {"quick": 900, "thorough": 60000}),
    ]
