"""C15 - debug authentication: credentials and responses are bound and verifiable (DESIGN.md section 4, C15)."""
from __future__ import annotations

import copy
import glob
import hashlib
import json
import os
import struct

from hypothesis import strategies as st

from vf import core
from vf import pins
from vf.core import HarnessError, HypPart, Oracle
from vf.gen import keys as K
from vf.ref import dat_layout as L

ID = "C15"
LEVEL = "exploration"
TECHNIQUE = (
    "Hypothesis-generated debug-credential configurations over the DAT families of the device database; every exported credential, "
    "challenge and response is decoded by an spsdk-free layout reader and its signatures are checked with pure-Python RSA/ECDSA; "
    "RoT hashes are recomputed from the raw key integers"
)
LEVEL_TEXT = (
    "exploration: for generated (family, revision, key type, 1..4 RoT keys, used index, DCK, uuid, constraints, beacons, challenges) the "
    "credential built through the nxpdebugmbox call sequence is parsed back by SPSDK (equality) and by an independent reader (field "
    "values, signature by the named RoT key over all preceding bytes, RoT hash from raw integers), and the response built for a "
    "generated challenge is checked for embedding, signature by the DCK over DC||beacon||[uuid]||challenge and non-verification "
    "under replaced challenge/uuid/beacon/credential. A pass means no disagreement on the generated inputs, not a proof"
)
RULE = (
    "cases are (DAT family+revision from an own walk of the device YAML files, key type RSA-2048/4096 or P-256/384/521, RoT list of 1..4 keys "
    "(4 for the EdgeLock SRK table) with each used index, DCK, 16-byte uuid (zero = wildcard or random), cc_socu/cc_vu/cc_beacon, input "
    "key encodings, rotk file or signature provider, explicit or derived protocol version, DAC fields with a 32-byte challenge, "
    "authentication beacon, DAR built by create() or load_from_config()); ECC scalars are Hypothesis-drawn (a fixed share with a "
    "leading-zero coordinate), RSA keys come from the committed pool. Part elev2: (container-version-2 family+revision, DCK type, signing key "
    "type, cc_socu, uuid absent/random/with leading zero bytes, fuse version, key file or signature provider). Non-trivial = at least 2 RoT "
    "keys or a non-zero uuid or a non-zero beacon (elev2: non-zero cc_socu or uuid); distinct by case digest"
)
ASSUMPTIONS = [
    "layouts are the documented field orders (DC RSA: version, socc, uuid, 128-byte RoT meta, DCK, cc_socu, cc_vu, beacon, RoTK, signature; "
    "DC ECC: version, socc, uuid, cc_socu, cc_vu, beacon, flags+CTRK table, RoTK, DCK, signature; EdgeLock: flags + AHAB SRK table, DCK, "
    "signature; DAR: DC, beacon, [uuid in the ECC versions], signature); the readers are calibrated on the five stored credentials of tests/dat/data",
    "signature schemes: RSASSA-PKCS1-v1_5/SHA-256 for the RSA protocol, RSASSA-PSS/SHA-256 where the SRK record declares RSA-PSS "
    "(EdgeLock), ECDSA with SHA-256/384/512 by curve; verification is pure Python (vf/ref/pk.py)",
    "RoT hash reference: v1 SHA-256 over 4x32-byte table of SHA-256(n||e); v2.x H(X||Y) for one key, H(concatenated H(X||Y)) for several, "
    "H by curve (SHA-512 for P-521); EdgeLock SHA-256 of the SRK table; calibrated on the literals of tests/utils/crypto/test_rkht.py "
    "and the SRK hash of tests/nxpimage/test_nxpimage_ahab.py",
    "RoT keys and DCK of one credential have the same type and size (that is what a protocol version means); mixed sizes are outside the domain",
    "family attributes (socc, based_on_ele, ele_cnt_version, dat_is_using_sha256_always, dac_version_is_swapped, pss_padding) are read from "
    "the device YAML files by an own walk (defaults < device (alias resolved) < revision) and compared with SPSDK's database at start",
    "ECDSA nonces and PSS salts inside SPSDK are not seedable: verdicts are validity, never bytes; failing artifacts are stored in the replay",
    "the EdgeLock container-version-2 credential is an AHAB certificate: only its fixed part, its single SRK record/data pair and the "
    "signature container are decoded (PQC second key pair is not exercised: no PQC backend in this environment); its signature is checked "
    "under the configured signing key (the certificate does not name its signer); the container-version-2 response (an AHAB signed "
    "message) is not decoded here (AHAB containers are C06's subject) - for those parts only credential and challenge are checked",
    "classic credentials are generated for non-EdgeLock parts and for EdgeLock revisions with ele_cnt_version 1; DebugAuthenticateResponse."
    "create() has no revision parameter, so for an older revision of a family whose latest revision is container version 2 the response is "
    "built through load_from_config() only",
    "the DAC is validated against the credential only when the RoT hash length of the challenge equals the length of the reference hash "
    "(it is unknown what a 'SHA-256 always' part sends for P-384/P-521 keys)",
]
FLOORS = {"kind:rsa": 0.04, "kind:ecc": 0.075, "kind:ele": 0.04, "kind:elev2": 0.025, "multi_rot": 0.125, "beacon_nonzero": 0.1,
          "uuid_nonzero": 0.1, "dar_checked": 0.2, "leading_zero": 0.015, "kt:secp521r1": 0.02, "kt:rsa4096": 0.0025, "rot_id:3": 0.01}

KEY_TYPES = ["secp256r1", "secp384r1", "secp521r1", "rsa2048", "rsa4096"]
_KT_WEIGHTED = ["secp256r1"] * 6 + ["secp384r1"] * 5 + ["secp521r1"] * 3 + ["rsa2048"] * 5 + ["rsa4096"] * 1
_FLIP_FIELDS = ["version", "socc", "uuid", "cc_socu", "cc_vu", "cc_beacon", "rot_meta", "rot_meta", "rotk", "dck", "dck"]
_STATE: dict = {}


# ------------------------------------------------------------------ device database, own walk
def _merge(a, b):
    out = copy.deepcopy(a) if isinstance(a, dict) else {}
    for k, v in (b or {}).items():
        if isinstance(v, dict) and isinstance(out.get(k), dict):
            out[k] = _merge(out[k], v)
        else:
            out[k] = copy.deepcopy(v)
    return out


def _num(v) -> int:
    return int(v.replace("_", ""), 0) if isinstance(v, str) else int(v)


def dat_families() -> dict:
    """{family: {"latest": rev, "revs": {rev: {socc, ele, cnt, sha256, swapped, nodac, inv, pss}}}} from the YAML files."""
    if "fams" in _STATE:
        return _STATE["fams"]
    import yaml  # noqa: PLC0415

    data = os.path.join(core.REPO, "spsdk", "data")
    with open(os.path.join(data, "common", "database_defaults.yaml"), encoding="utf-8") as f:
        defaults = yaml.safe_load(f)
    raw = {}
    for p in sorted(glob.glob(os.path.join(data, "devices", "*", "database.yaml"))):
        with open(p, encoding="utf-8") as f:
            raw[os.path.basename(os.path.dirname(p))] = yaml.safe_load(f)

    def resolved(name):
        d = raw[name]
        if d.get("alias"):
            return _merge(resolved(d["alias"]), {k: v for k, v in d.items() if k != "alias"})
        return d

    fams = {}
    for name in sorted(raw):
        d = resolved(name)
        feats = d.get("features") or {}
        if "dat" not in feats:
            continue
        revs = {}
        for rev, rd in d["revisions"].items():
            dat = _merge(_merge(defaults["features"]["dat"], feats["dat"]), ((rd or {}).get("features") or {}).get("dat") or {})
            sig = _merge(defaults["features"].get("signing") or {}, feats.get("signing") or {}) if "signing" in feats else {}
            revs[rev] = {
                "socc": _num(dat["socc"]), "ele": bool(dat.get("based_on_ele", False)), "cnt": int(dat.get("ele_cnt_version", 1)),
                "sha256": bool(dat.get("dat_is_using_sha256_always", False)), "swapped": bool(dat.get("dac_version_is_swapped", False)),
                "nodac": bool(dat.get("rot_not_part_of_dac", False)), "inv": bool(dat.get("rot_could_be_invalid", False)),
                "pss": bool(sig.get("pss_padding", False)),
            }
        fams[name] = {"latest": d["latest"], "revs": revs, "pred": ((d.get("info") or {}).get("spsdk_predecessor_name") or None)}
    _STATE["fams"] = fams
    return fams


def _old_name(fam: str):
    """The name the family had in earlier releases (still accepted everywhere), if it stands for this family alone."""
    fams = dat_families()
    p = fams[fam].get("pred")
    if not p or p in fams:
        return None
    return p if sum(1 for f in fams.values() if f.get("pred") == p) == 1 else None


def _info(fam: str, rev: str) -> dict:
    f = dat_families()[fam]
    return f["revs"][f["latest"] if rev == "latest" else rev]


def _family_choices(tier: str, want_cnt: int = 1) -> list:
    """(family, revision) pairs: quick = one family per distinct attribute tuple and revision pattern; thorough = all.

    want_cnt selects the EdgeLock container version: revisions with ele_cnt_version 2 use the AHAB-certificate credential
    (part elev2); the classic credential classes are documented for the others."""
    fams = dat_families()
    out, seen = [], set()
    for name, f in fams.items():
        for rev in ["latest"] + sorted(f["revs"]):
            info = _info(name, rev)
            if info["ele"] and info["cnt"] != want_cnt:
                continue
            sig = (tuple(sorted(info.items())), rev == "latest", f["revs"][f["latest"]]["cnt"])
            if tier == "quick" and sig in seen:
                continue
            seen.add(sig)
            out.append((name, rev))
    return out


# ------------------------------------------------------------------ keys
def _pub(desc) -> tuple:
    if desc["t"] == "ec":
        x, y = K.ec_public_xy(desc["curve"], int(desc["d"]))
        return ("ec", desc["curve"], x, y)
    n = K.rsa_key(int(desc["bits"]), int(desc["i"])).public_key().public_numbers()
    return ("rsa", int(desc["bits"]), n.n, n.e)


def _key_id(desc) -> str:
    if desc["t"] == "ec":
        return "%s_%s" % (desc["curve"], hashlib.sha256(str(int(desc["d"])).encode()).hexdigest()[:16])
    return "rsa%d_%d" % (int(desc["bits"]), int(desc["i"]) % K.RSA_POOL[int(desc["bits"])])


def _write(path: str, data: bytes) -> str:
    if not os.path.exists(path):
        tmp = "%s.%d.tmp" % (path, os.getpid())
        with open(tmp, "wb") as f:
            f.write(data)
        os.replace(tmp, path)
    return path


def _key_file(desc, form: str) -> str:
    """Materialise the key in the given encoding under the work dir (content-addressed, shared by the workers)."""
    wd = _STATE["work"]
    key = K.key_from_desc(desc)
    name = "%s.%s" % (_key_id(desc), form)
    path = os.path.join(wd, name)
    if os.path.exists(path):
        return path
    data = {"pub.pem": K.public_pem, "pub.der": K.public_der, "priv.pem": K.private_pem, "priv.der": K.private_der}[form](key)
    return _write(path, data)


def _key_desc(kt: str):
    if kt.startswith("rsa"):
        bits = int(kt[3:])
        return st.integers(0, K.RSA_POOL[bits] - 1).map(lambda i: {"t": "rsa", "bits": bits, "i": i})
    return K.ec_scalars(kt, 0.15).map(lambda d: {"t": "ec", "curve": kt, "d": d})


_U32 = st.one_of(st.integers(0, 0xFFFFFFFF), st.sampled_from([0, 1, 0x3FF, 0xFFFF, 0x10000, 0x80000000, 0xFFFFFFFF]))
_BEACON = st.one_of(st.just(0), st.integers(1, 0xFFFF), st.integers(0x10000, 0xFFFFFFFF), st.sampled_from([1, 0xFFFF, 0xFFFFFFFF]))
# device identifiers: wildcard (all zero), arbitrary, and numbers with zero bytes at the front or at the end (a UUID is 16 bytes, not a number)
_UUID = st.one_of(st.just(bytes(16)), st.binary(min_size=16, max_size=16), st.binary(min_size=16, max_size=16),
                  st.integers(1, 15).flatmap(lambda z: st.binary(min_size=16 - z, max_size=16 - z).map(lambda t: bytes(z) + (t if t[0] else b"\x01" + t[1:]))),
                  st.integers(1, 15).flatmap(lambda z: st.binary(min_size=16 - z, max_size=16 - z).map(lambda t: t + bytes(z))))


def _class_of(info: dict) -> str:
    if info["ele"]:
        return "ele_v%d%s" % (info["cnt"], "_swapped" if info["swapped"] else "")
    return "sha256_always" if info["sha256"] else "rot_not_in_dac" if info["nodac"] else "rot_could_be_invalid" if info["inv"] else "plain"


_CLASS_WEIGHT = {"plain": 4, "sha256_always": 2, "rot_could_be_invalid": 2, "rot_not_in_dac": 1, "ele_v1": 4, "ele_v1_swapped": 2}


def _dc_strategy(tier: str):
    groups: dict = {}
    for fam_rev in _family_choices(tier):
        groups.setdefault(_class_of(_info(*fam_rev)), []).append(fam_rev)
    classes = [c for c in sorted(groups) for _ in range(_CLASS_WEIGHT.get(c, 1))]

    @st.composite
    def build(draw):
        fam, rev = draw(st.sampled_from(groups[draw(st.sampled_from(classes))]))
        info = _info(fam, rev)
        kt = draw(st.sampled_from(_KT_WEIGHTED))
        n = 4 if info["ele"] else draw(st.sampled_from([1, 1, 2, 3, 4, 4]))
        rot = draw(st.lists(_key_desc(kt), min_size=n, max_size=n, unique_by=_key_id))
        return {
            "fam": fam, "rev": rev, "kt": kt, "rot": rot, "rot_id": draw(st.integers(0, n - 1)), "dck": draw(_key_desc(kt)),
            "uuid": draw(_UUID), "socu": draw(_U32), "vu": draw(_U32), "cb": draw(_BEACON),
            "rot_form": draw(st.lists(st.sampled_from(["pub.pem", "pub.pem", "pub.der", "priv.pem"]), min_size=n, max_size=n)),
            "dck_form": draw(st.sampled_from(["pub.pem", "pub.der", "priv.pem"])),
            "signer": draw(st.sampled_from(["rotk", "rotk", "sp"])), "sp_der": draw(st.booleans()), "old_name": draw(st.sampled_from([False, False, True])),
            "explicit_version": draw(st.booleans()),
            "by_socc": draw(st.sampled_from([False, False, False, True])),
            "flag_ca": draw(st.booleans()),
            "values_as_text": draw(st.booleans()),
            "ab": draw(_BEACON), "chal": draw(st.binary(min_size=32, max_size=32)), "chal2": draw(st.binary(min_size=32, max_size=32)),
            "dev_uuid": draw(st.binary(min_size=16, max_size=16)), "uuid2": draw(st.binary(min_size=16, max_size=16)),
            "ab2": draw(st.integers(0, 0xFFFFFFFF)), "revocation": draw(_U32), "pinned": draw(_U32), "default": draw(_U32),
            "dac_vu": draw(_U32), "flip": draw(st.integers(0, 1 << 20)), "flip_field": draw(st.sampled_from(_FLIP_FIELDS)),
            # EdgeLock parts: the challenge's protocol version is not compared with the credential's (validate_against_dc), so the
            # device may send another one; the response still follows the credential
            "dac_ver": draw(st.sampled_from([None, None, [1, 0], [1, 1], [2, 0], [2, 1], [2, 2]])),
            # the same key (and the same file) in two entries of the RoT table, as when one key fills all slots
            "dup": draw(st.one_of(st.none(), st.none(), st.none(), st.tuples(st.integers(0, 3), st.integers(0, 3)))),
            "dar_path": draw(st.sampled_from(["create", "config"])),
            "dar_family_given": draw(st.booleans()), "dar_signer": draw(st.sampled_from(["key", "key", "sp"])), "neg": draw(st.sampled_from(["uuid", "beacon", "dc", "chal"])),
        }

    return build()


# ------------------------------------------------------------------ helpers
def _ref_rot_hash(kind: str, pubs, srk_flags: int) -> bytes:
    if kind == "rsa":
        return L.rkth_v1(pubs)[1]
    if kind == "ecc":
        return L.rkth_v21(pubs)[1]
    return L.srkh(pubs, srk_flags)


def _dac_hash_len(info: dict, major: int, minor: int) -> int:
    """RoT hash length of the challenge: EdgeLock parts and the 'SHA-256 always' parts send 32 bytes, others by curve."""
    if info["ele"] or info["sha256"] or major == 1:
        return 32
    return {0: 32, 1: 48, 2: 64}[minor]


def _other(a: bytes, b: bytes) -> bytes:
    """b, made different from a."""
    b = bytes(b)
    return b if b != bytes(a) else bytes([b[0] ^ 0x5A]) + b[1:]


def _lz(desc) -> bool:
    return K.has_leading_zero(desc)


def run_dc(case, o: Oracle) -> None:
    from spsdk.dat.dac_packet import DebugAuthenticationChallenge  # noqa: PLC0415
    from spsdk.dat.dar_packet import DebugAuthenticateResponse  # noqa: PLC0415
    from spsdk.dat.debug_credential import DebugCredentialCertificate, ProtocolVersion  # noqa: PLC0415
    from spsdk.exceptions import SPSDKValueError  # noqa: PLC0415
    from spsdk.utils.schema_validator import check_config  # noqa: PLC0415

    wd = _STATE["work"]
    fam, rev, kt = case["fam"], case["rev"], case["kt"]
    info = _info(fam, rev)
    latest = _info(fam, "latest")
    rot_descs, dck_desc = list(case["rot"]), case["dck"]
    n, rot_id = len(rot_descs), int(case["rot_id"])
    rot_form = list(case["rot_form"])
    if case.get("dup") and n >= 2 and case["dup"][0] % n != case["dup"][1] % n:
        rot_descs[case["dup"][1] % n] = rot_descs[case["dup"][0] % n]
        rot_form[case["dup"][1] % n] = rot_form[case["dup"][0] % n]
        o.label("rot_duplicate")
    pubs = [_pub(d) for d in rot_descs]
    dck_pub = _pub(dck_desc)
    kind = "ele" if info["ele"] else ("rsa" if kt.startswith("rsa") else "ecc")
    major, minor = L.protocol_version(pubs[rot_id])
    uuid, socu, vu, cb = bytes(case["uuid"]), int(case["socu"]), int(case["vu"]), int(case["cb"])
    by_socc = bool(case["by_socc"]) and not info["ele"]
    # the family may be named by its earlier name (rt118x, mx93, ...)
    fam_given = fam
    if case.get("old_name") and _old_name(fam):
        fam_given = _old_name(fam)
    call_rev = rev
    if by_socc and rev != "latest":
        # a SoC class that only an older revision has (MCXN54x/94x a0: 6) is reachable through the `socc:` form alone; the
        # tool then works with the latest revision of the class's ambassador family, whose other attributes must be the same
        amb = _info(DebugCredentialCertificate.get_family_ambassador(info["socc"]), "latest")
        if {k: v for k, v in amb.items() if k != "socc"} != {k: v for k, v in info.items() if k != "socc"}:
            by_socc = False
        else:
            call_rev = "latest"
    flag_ca = bool(case["flag_ca"]) and kind == "ele"
    srk_flags = L.SRK_FLAG_CA if flag_ca else 0

    # ---- classification
    o.label("kind:" + kind, "kt:" + kt, "n:%d" % n, "rot_id:%d" % rot_id, "signer:" + case["signer"], "proto:%d.%d" % (major, minor))
    o.label("class:" + _class_of(info))
    if n >= 2:
        o.label("multi_rot")
    if any(uuid):
        o.label("uuid_nonzero")
        if not any(uuid[:4]):
            o.label("uuid_leading_zero_word")
    if cb:
        o.label("beacon_nonzero")
    if cb > 0xFFFF:
        o.label("beacon_gt16bit")
    if fam_given != fam:
        o.label("family_by_earlier_name")
    if by_socc:
        o.label("by_socc")
        if call_rev != rev:
            o.label("by_socc_older_revision")
    if kind == "ele" and kt.startswith("rsa") and case["signer"] == "sp":
        o.label("dc_pss_via_sign_provider")
    if case["explicit_version"]:
        o.label("explicit_version")
    if flag_ca:
        o.label("flag_ca")
    if any(_lz(d) for d in rot_descs + [dck_desc]):
        o.label("leading_zero")
    if info["cnt"] != latest["cnt"]:
        o.label("older_revision_of_v2_family")
    o.nontrivial(n >= 2 or any(uuid) or cb != 0)
    o.sample({"family": fam, "revision": rev, "key_type": kt, "rot_keys": n, "rot_id": rot_id, "uuid": uuid.hex(), "cc_socu": socu, "cc_vu": vu,
              "cc_beacon": cb, "auth_beacon": case["ab"], "challenge": bytes(case["chal"]).hex(), "dar_path": case["dar_path"]})

    # ---- configuration as a user writes it
    rot_files = [_key_file(d, f) for d, f in zip(rot_descs, rot_form)]
    rotk_file = _key_file(rot_descs[rot_id], "priv.pem")
    dck_file = _key_file(dck_desc, case["dck_form"])
    dck_priv = _key_file(dck_desc, "priv.pem")
    txt = bool(case["values_as_text"])
    cfg = {
        "uuid": uuid.hex().upper() if txt else uuid.hex(),
        "cc_socu": hex(socu) if txt else socu, "cc_vu": hex(vu) if txt else vu, "cc_beacon": str(cb) if txt else cb,
        "rot_meta": [os.path.basename(p) for p in rot_files], "rot_id": rot_id, "dck": os.path.basename(dck_file),
    }
    spaths = [wd]
    if int(core.case_digest(case)[8:10], 16) % 2:
        # a project folder of its own in which the key files have everyday names: the same names hold other keys in the next case
        import shutil

        pdir = os.path.join(wd, "project-%d" % os.getpid())
        shutil.rmtree(pdir, ignore_errors=True)
        os.makedirs(pdir)
        names = []
        for i, (src, form) in enumerate(zip(rot_files, rot_form)):
            names.append("rot%d.%s" % (i, form.split(".")[1]))
            shutil.copyfile(src, os.path.join(pdir, names[-1]))
        shutil.copyfile(dck_file, os.path.join(pdir, "dck_key." + case["dck_form"].split(".")[1]))
        cfg["rot_meta"], cfg["dck"] = names, "dck_key." + case["dck_form"].split(".")[1]
        spaths = [pdir, wd]
        o.label("everyday_file_names")
    if by_socc:
        cfg["socc"] = hex(info["socc"]) if txt else info["socc"]
    else:
        cfg["family"] = fam_given
        if rev != "latest":
            cfg["revision"] = rev
    if case["signer"] == "sp":
        cfg["sign_provider"] = "type=file;file_path=%s" % rotk_file
        if case.get("sp_der") and not kt.startswith("rsa"):
            # a provider that hands ECDSA signatures over DER-encoded (HSM plug-ins do; the stock provider on request): the credential
            # carries r||s all the same
            cfg["sign_provider"] += ";der_format=true"
            o.label("sign_provider_returns_der")
    else:
        cfg["rotk"] = os.path.basename(rotk_file)
    if kind == "ele" and flag_ca:
        cfg["flag_ca"] = True
    cfg = core.reorder(cfg, int(core.case_digest(case)[:8], 16))  # mapping keys in an order picked with the case
    want_class = {"rsa": "DebugCredentialCertificateRsa", "ecc": "DebugCredentialCertificateEcc", "ele": "DebugCredentialEdgeLockEnclave"}[kind]

    # ---- the nxpdebugmbox `dat dc export` call sequence
    dc = data = None
    with o.spsdk("create", "dc"):
        family = fam_given if not by_socc else DebugCredentialCertificate.get_family_ambassador(info["socc"])
        klass = DebugCredentialCertificate._get_class_from_cfg(config=cfg, family=family, search_paths=spaths, revision=call_rev)
        check_config(cfg, klass.get_validation_schemas(family, call_rev), search_paths=spaths)
        version = ProtocolVersion("%d.%d" % (major, minor)) if case["explicit_version"] else None
        dc = klass.create_from_yaml_config(config=cfg, version=version, search_paths=spaths)
        dc.sign()
        data = dc.export()
        o.eq("create", "class", type(dc).__name__, want_class)
    if data is None:
        return
    o.artifact("dc", data)

    # ---- (a) SPSDK parses its own credential back to equal field values
    with o.spsdk("roundtrip", "parse"):
        p = type(dc).parse(data)
        for name in ("version", "socc", "uuid", "cc_socu", "cc_vu", "cc_beacon", "rot_meta", "dck_pub", "rot_pub", "signature"):
            o.check("roundtrip", getattr(p, name) == getattr(dc, name), "field:" + name, "%r != %r" % (getattr(p, name), getattr(dc, name)))
        o.check("roundtrip", p == dc, "object_eq")
        o.eq("roundtrip", "reexport", p.export(), data)
    with o.spsdk("roundtrip", "dispatch"):
        # the generic entry point used by `nxpdebugmbox auth` (class chosen from version and socc)
        p2 = DebugCredentialCertificate.parse(data)
        o.eq("roundtrip", "dispatch_class", type(p2).__name__, want_class)
        o.check("roundtrip", p2 == dc, "dispatch_object_eq")

    # ---- (b) independent reader: fields, named RoT key, signature over all preceding bytes
    m = None
    try:
        m = L.parse_dc(data, info["ele"])
    except (L.LayoutError, struct.error) as exc:
        o.fail("layout", "dc_layout", "%s: %s" % (type(exc).__name__, exc))
    if m is not None:
        o.eq("layout", "version", (m["major"], m["minor"]), (major, minor))
        o.eq("layout", "socc", m["socc"], info["socc"])
        o.eq("layout", "uuid", m["uuid"], uuid)
        o.eq("layout", "cc_socu", m["cc_socu"], socu)
        o.eq("layout", "cc_vu", m["cc_vu"], vu)
        o.eq("layout", "cc_beacon", m["cc_beacon"], cb)
        o.eq("layout", "rot_key", m["rotk"], pubs[rot_id])
        o.eq("layout", "dck", m["dck"], dck_pub)
        if kind == "rsa":
            o.eq("layout", "rot_meta", m["rot_meta_raw"], L.rkth_v1(pubs)[0])
        else:
            o.eq("layout", "rot_flags", (m["used"], m["count"]), (rot_id, n))
            if kind == "ecc":
                o.eq("layout", "rot_meta", m["rot_meta_raw"][4:], L.rkth_v21(pubs)[0])
            else:
                o.eq("layout", "rot_meta", m["rot_meta_raw"][4:], L.srk_table(pubs, srk_flags))
        o.check("signature", L.dc_signature_ok(m), "dc_verifies", "signature does not verify under the named RoT key over the %d preceding bytes" % len(m["signed"]))
        fa, fb = m["offsets"].get(case["flip_field"], m["offsets"]["rot_meta"])  # EdgeLock: the RoT key lives inside the RoT meta
        pos = 8 * fa + int(case["flip"]) % (8 * (fb - fa))
        bad = bytearray(m["signed"])
        bad[pos // 8] ^= 1 << (pos % 8)
        o.check("signature", not L.dc_signature_ok(m, bytes(bad)), "dc_flip_undetected", "flip in field %s" % L.field_at(m["offsets"], pos // 8))
        o.label("flip:" + L.field_at(m["offsets"], pos // 8))

    # ---- (c) RoT hash equals the reference construction from raw integers and what the image tools compute
    want_hash = _ref_rot_hash(kind, pubs, srk_flags)
    with o.spsdk("rothash", "calculate_hash"):
        o.eq("rothash", "value", dc.calculate_hash(), want_hash)
    if kind != "ele" and kt != "secp521r1":  # the certificate-block tools know RSA, P-256 and P-384
        with o.spsdk("rothash", "image_tool"):
            from spsdk.crypto.keys import PublicKey  # noqa: PLC0415
            from spsdk.utils.crypto.rkht import RKHTv1, RKHTv21  # noqa: PLC0415

            keys = [PublicKey.parse(K.public_pem(K.key_from_desc(d))) for d in rot_descs]
            tool = (RKHTv1 if kind == "rsa" else RKHTv21).from_keys(keys).rkth()
            o.eq("rothash", "image_tool_value", tool, want_hash)

    # ---- challenge as the device sends it
    dev_uuid = uuid if any(uuid) else bytes(case["dev_uuid"])
    chal = bytes(case["chal"])
    dmajor, dminor = major, minor
    if info["ele"] and case.get("dac_ver"):
        dmajor, dminor = case["dac_ver"]
        o.label("dac_version_differs" if (dmajor, dminor) != (major, minor) else "dac_version_same", "dac_major_differs" if dmajor != major else "dac_major_same")
    hl = _dac_hash_len(info, dmajor, dminor)
    dac_hash = want_hash[:hl].ljust(hl, b"\0")
    v = (dminor, dmajor) if info["swapped"] else (dmajor, dminor)
    dac_bytes = L.build_dac(v[0], v[1], info["socc"], dev_uuid, int(case["revocation"]), dac_hash, int(case["pinned"]), int(case["default"]),
                            int(case["dac_vu"]), chal)
    dac = None
    with o.spsdk("dac", "parse"):
        dac = DebugAuthenticationChallenge.parse(dac_bytes)
        got = (dac.version.major, dac.version.minor, dac.socc, dac.uuid, dac.rotid_rkh_revocation, dac.rotid_rkth_hash, dac.cc_soc_pinned,
               dac.cc_soc_default, dac.cc_vu, dac.challenge)
        o.eq("dac", "fields", got, (dmajor, dminor, info["socc"], dev_uuid, int(case["revocation"]), dac_hash, int(case["pinned"]),
                                    int(case["default"]), int(case["dac_vu"]), chal))
    if dac is None:
        return
    if len(want_hash) == hl:
        with o.spsdk("dac", "validate_consistent"):
            dac.validate_against_dc(fam, dc)
        o.label("dac_validated")
    if any(uuid):
        wrong = DebugAuthenticationChallenge(dac.version, dac.socc, _other(uuid, case["uuid2"]), dac.rotid_rkh_revocation, dac.rotid_rkth_hash,
                                             dac.cc_soc_pinned, dac.cc_soc_default, dac.cc_vu, dac.challenge)
        o.raises("dac", "validate_other_uuid", lambda: wrong.validate_against_dc(fam, dc), (SPSDKValueError,))

    # ---- (d) response: DC || beacon || signature by DCK over DC || beacon || [uuid] || challenge
    ab = int(case["ab"])
    path = case["dar_path"]
    if info["cnt"] != latest["cnt"]:
        path = "config"  # create() has no revision parameter; the revision decides the response class
    dar_bytes = None
    dar_signer = case["dar_signer"]
    o.label("dar_signer:" + dar_signer)
    if dck_pub[0] == "rsa" and info["pss"] and dar_signer == "sp":
        o.label("dar_pss_via_sign_provider")
    with o.spsdk("dar", "build:" + path):
        if path == "create":
            # create() takes a key file or, for anything that is not an existing file, a signature provider configuration
            dar = DebugAuthenticateResponse.create(family=fam_given if case["dar_family_given"] else None, version=None, dc=dc, auth_beacon=ab,
                                                   dac=dac, dck=dck_priv if dar_signer == "key" else "type=file;file_path=%s" % dck_priv)
        else:
            cert_file = _write(os.path.join(wd, "dc_%s.bin" % hashlib.sha256(data).hexdigest()[:24]), data)
            dcfg = {"family": fam_given, "certificate": os.path.basename(cert_file), "beacon": ab}
            if dar_signer == "key":
                dcfg["dck_private_key"] = os.path.basename(dck_priv)
            else:
                dcfg["sign_provider"] = "type=file;file_path=%s" % dck_priv
                if case.get("sp_der") and dck_pub[0] != "rsa":
                    dcfg["sign_provider"] += ";der_format=true"
                    o.label("dar_sign_provider_returns_der")
            if rev != "latest":
                dcfg["revision"] = rev
            check_config(dcfg, DebugAuthenticateResponse.get_validation_schemas(fam_given, rev), search_paths=[wd])
            dar = DebugAuthenticateResponse.load_from_config(dcfg, dac, search_paths=[wd])
        dar_bytes = dar.export()
    o.label("dar:" + path)
    if dar_bytes is None:
        return
    o.artifact("dar", dar_bytes)
    o.label("dar_checked")
    ecc_version = major == 2
    try:
        r = L.parse_dar(dar_bytes, len(data), L.signature_size(dck_pub), ecc_version)
    except L.LayoutError as exc:
        o.fail("dar", "dar_layout", str(exc))
        return
    o.eq("dar", "embeds_dc", r["dc"], data)
    o.eq("dar", "embeds_beacon", r["auth_beacon"], ab)
    if ecc_version:
        o.eq("dar", "embeds_uuid", r["uuid"], dev_uuid)
    pss = dck_pub[0] == "rsa" and info["pss"]
    u = dev_uuid if ecc_version else None
    signed = L.dar_signed_data(data, ab, u, chal)
    o.check("dar", L.verify(dck_pub, r["signature"], signed, pss=pss), "dar_verifies",
            "signature does not verify under the DCK over DC||beacon||%schallenge" % ("uuid||" if ecc_version else ""))
    # ---- (e) binding
    o.check("binding", not L.verify(dck_pub, r["signature"], L.dar_signed_data(data, ab, u, _other(chal, case["chal2"])), pss=pss), "other_challenge_verifies")
    neg = case["neg"]
    if neg == "uuid" and ecc_version:
        o.check("binding", not L.verify(dck_pub, r["signature"], L.dar_signed_data(data, ab, _other(dev_uuid, case["uuid2"]), chal), pss=pss), "other_uuid_verifies")
    elif neg == "beacon":
        ab2 = int(case["ab2"]) if int(case["ab2"]) != ab else ab ^ 1
        o.check("binding", not L.verify(dck_pub, r["signature"], L.dar_signed_data(data, ab2, u, chal), pss=pss), "other_beacon_verifies")
    elif neg == "dc":
        other_dc = bytearray(data)
        other_dc[8 + int(case["flip"]) % 16] ^= 0x01  # the same credential issued for another uuid
        o.check("binding", not L.verify(dck_pub, r["signature"], L.dar_signed_data(bytes(other_dc), ab, u, chal), pss=pss), "other_credential_verifies")
    o.label("neg:" + neg)
    # ---- (f) the same response object answers a second challenge (a debugger session that authenticates again)
    chal_b = _other(chal, case["chal2"])
    ab_b = (ab + 1) & 0xFFFF
    dac_b_bytes = L.build_dac(v[0], v[1], info["socc"], dev_uuid, int(case["revocation"]), dac_hash, int(case["pinned"]), int(case["default"]),
                              int(case["dac_vu"]), chal_b)
    dar_b = None
    with o.spsdk("dar", "second_round"):
        dar.dac = DebugAuthenticationChallenge.parse(dac_b_bytes)
        dar.auth_beacon = ab_b
        dar_b = dar.export()
    if dar_b is not None:
        try:
            rb = L.parse_dar(dar_b, len(data), L.signature_size(dck_pub), ecc_version)
            o.eq("dar", "second_round_beacon", rb["auth_beacon"], ab_b)
            o.check("dar", L.verify(dck_pub, rb["signature"], L.dar_signed_data(data, ab_b, u, chal_b), pss=pss), "second_round_verifies",
                    "the response to a second challenge from the same object is not signed over that challenge and beacon")
            o.check("binding", not L.verify(dck_pub, rb["signature"], signed, pss=pss), "second_round_signature_of_first_round")
        except L.LayoutError as exc:
            o.fail("dar", "second_round_layout", str(exc))
        o.label("dar_second_round")


# ------------------------------------------------------------------ EdgeLock enclave, container version 2 (AHAB certificate)
def _elev2_strategy(tier: str):
    choices = _family_choices("thorough", want_cnt=2)
    choices = [c for c in choices if _info(*c)["ele"] and _info(*c)["cnt"] == 2]
    uuid = st.one_of(st.none(), st.binary(min_size=16, max_size=16), st.binary(min_size=16, max_size=16),
                     st.integers(1, 12).flatmap(lambda z: st.binary(min_size=16 - z, max_size=16 - z).map(lambda b: bytes(z) + b)))

    @st.composite
    def build(draw):
        fam, rev = draw(st.sampled_from(choices))
        dck_kt = draw(st.sampled_from(_KT_WEIGHTED))
        srk_kt = draw(st.sampled_from([dck_kt, dck_kt] + _KT_WEIGHTED))
        return {
            "fam": fam, "rev": rev, "dck": draw(_key_desc(dck_kt)), "srk": draw(_key_desc(srk_kt)), "socu": draw(_U32), "uuid": draw(uuid),
            "fuse_version": draw(st.one_of(st.none(), st.integers(0, 255))), "signer": draw(st.sampled_from(["key", "key", "sp"])),
            "dck_form": draw(st.sampled_from(["pub.pem", "pub.der", "priv.pem"])), "values_as_text": draw(st.booleans()),
            "flip": draw(st.integers(0, 1 << 20)), "flip_field": draw(st.sampled_from(["head", "perm_data", "uuid", "record", "key"])),
            "chal": draw(st.binary(min_size=32, max_size=32)), "dev_uuid": draw(st.binary(min_size=16, max_size=16)),
            "dac_minor": draw(st.integers(0, 2)), "dac_hash": draw(st.binary(min_size=32, max_size=32)), "revocation": draw(_U32),
            "pinned": draw(_U32), "default": draw(_U32), "dac_vu": draw(_U32),
        }

    return build()


def run_elev2(case, o: Oracle) -> None:
    from spsdk.dat.dac_packet import DebugAuthenticationChallenge  # noqa: PLC0415
    from spsdk.dat.debug_credential import DebugCredentialCertificate, DebugCredentialEdgeLockEnclaveV2  # noqa: PLC0415
    from spsdk.utils.schema_validator import check_config  # noqa: PLC0415

    wd = _STATE["work"]
    fam, rev = case["fam"], case["rev"]
    info = _info(fam, rev)
    dck_desc, srk_desc = case["dck"], case["srk"]
    dck_pub, srk_pub = _pub(dck_desc), _pub(srk_desc)
    socu = int(case["socu"])
    uuid = bytes(case["uuid"]) if case["uuid"] is not None else None
    fuse_version = case["fuse_version"]
    txt = bool(case["values_as_text"])
    o.label("kind:elev2", "v2_dck:" + L.key_type(dck_pub), "v2_srk:" + L.key_type(srk_pub), "v2_signer:" + case["signer"])
    if uuid is None:
        o.label("v2_uuid_absent")
    elif uuid[0] == 0:
        o.label("v2_uuid_leading_zero_byte")
        if uuid[:4] == bytes(4):
            o.label("v2_uuid_4_leading_zero_bytes")
    if uuid is not None and any(uuid):
        o.label("uuid_nonzero")
    if srk_pub[0] == "rsa" and case["signer"] == "sp":
        o.label("dc_pss_via_sign_provider")
    if K.has_leading_zero(dck_desc) or K.has_leading_zero(srk_desc):
        o.label("leading_zero")
    o.nontrivial(socu != 0 or (uuid is not None and any(uuid)))
    o.sample({"family": fam, "revision": rev, "dck": L.key_type(dck_pub), "signing_key": L.key_type(srk_pub), "cc_socu": socu,
              "uuid": uuid.hex() if uuid is not None else None, "fuse_version": fuse_version})

    srk_priv = _key_file(srk_desc, "priv.pem")
    cfg = {"family": fam, "cc_socu": hex(socu) if txt else socu, "public_key_0": os.path.basename(_key_file(dck_desc, case["dck_form"]))}
    if rev != "latest":
        cfg["revision"] = rev
    if uuid is not None:
        cfg["uuid"] = "0x" + uuid.hex()
    if fuse_version is not None:
        cfg["fuse_version"] = str(fuse_version) if txt else fuse_version
    if case["signer"] == "sp":
        cfg["signature_provider_0"] = "type=file;file_path=%s" % srk_priv
    else:
        cfg["signing_key_0"] = os.path.basename(srk_priv)

    dc = data = None
    with o.spsdk("create", "dc_v2"):
        klass = DebugCredentialCertificate._get_class_from_cfg(config=cfg, family=fam, search_paths=[wd], revision=rev)
        if klass is not DebugCredentialEdgeLockEnclaveV2:
            # a P-256 key in public_key_0 makes the application pick the classic class (noted in the report, not judged here);
            # the container-version-2 class is used directly as tests/dat/test_debug_cred.py does
            o.label("v2_class_from_cfg_is_classic")
            klass = DebugCredentialEdgeLockEnclaveV2
        check_config(cfg, klass.get_validation_schemas(fam, rev), search_paths=[wd])
        dc = klass.create_from_yaml_config(config=dict(cfg), search_paths=[wd])
        dc.sign()
        data = dc.export()
    if data is None:
        return
    o.artifact("dc", data)

    with o.spsdk("roundtrip", "parse_v2"):
        p = DebugCredentialEdgeLockEnclaveV2.parse(data)
        # an omitted (optional) uuid is the all-zero uuid on the wire: the objects then differ only in None vs zeros,
        # which is a representation, not a field value; object equality is demanded against a second parse instead
        o.check("roundtrip", p == (dc if uuid is not None else DebugCredentialEdgeLockEnclaveV2.parse(p.export())), "object_eq")
        o.eq("roundtrip", "field:socc", p.socc, dc.socc)
        o.eq("roundtrip", "field:socu", p.socu, dc.socu)
        o.eq("roundtrip", "field:uuid", p.uuid or bytes(16), dc.uuid or bytes(16))
        o.check("roundtrip", p.dck_pub == dc.dck_pub, "field:dck_pub")
        o.eq("roundtrip", "reexport", p.export(), data)
    with o.spsdk("roundtrip", "dispatch_v2"):
        p2 = DebugCredentialCertificate.parse(data)
        o.eq("roundtrip", "dispatch_class", type(p2).__name__, "DebugCredentialEdgeLockEnclaveV2")
        o.check("roundtrip", p2 == (dc if uuid is not None else p), "dispatch_object_eq")

    m = None
    try:
        m = L.parse_cert_v2(data)
    except (L.LayoutError, struct.error) as exc:
        o.fail("layout", "dc_v2_layout", "%s: %s" % (type(exc).__name__, exc))
    if m is not None:
        o.eq("layout", "v2_permission", m["perm"], L.PERM_DEBUG)
        o.eq("layout", "v2_socc", struct.unpack("<L", m["perm_data"][:4])[0], info["socc"])
        o.eq("layout", "v2_cc_socu", struct.unpack("<L", m["perm_data"][4:8])[0], socu)
        o.eq("layout", "v2_beacon", struct.unpack("<L", m["perm_data"][8:12])[0], 0)
        o.eq("layout", "v2_uuid", m["uuid"], uuid if uuid is not None else bytes(16))
        o.eq("layout", "v2_fuse_version", m["fuse_version"], fuse_version or 0)
        o.eq("layout", "v2_dck", m["pub"], dck_pub)
        if m["hash_alg"] is None:
            o.fail("layout", "v2_hash_alg", "unknown hash code")
        else:
            o.eq("layout", "v2_key_data_hash", m["data_hash"], hashlib.new(m["hash_alg"], m["srk_data"]).digest().ljust(64, b"\0"))
        pss = srk_pub[0] == "rsa"  # the AHAB RSA records declare RSA-PSS
        o.check("signature", L.verify(srk_pub, m["signature"], m["signed"], pss=pss), "dc_v2_verifies",
                "signature does not verify under the signing key over the %d preceding bytes" % len(m["signed"]))
        spans = {"head": (0, 8), "perm_data": (8, 20), "uuid": (24, 40), "record": (40, 116), "key": (116, m["sig_off"])}
        fa, fb = spans[case["flip_field"]]
        pos = 8 * fa + int(case["flip"]) % (8 * (fb - fa))
        bad = bytearray(m["signed"])
        bad[pos // 8] ^= 1 << (pos % 8)
        o.check("signature", not L.verify(srk_pub, m["signature"], bytes(bad), pss=pss), "dc_v2_flip_undetected", "flip in %s" % case["flip_field"])
        o.label("v2_flip:" + case["flip_field"])
    with o.spsdk("layout", "v2_object"):
        o.eq("layout", "v2_object_socc", dc.socc, info["socc"])
        o.eq("layout", "v2_object_socu", dc.socu, socu)

    # challenge of these parts: 32-byte RoT hash whatever the version says, version halves swapped when the database says so
    dev_uuid, chal, minor = bytes(case["dev_uuid"]), bytes(case["chal"]), int(case["dac_minor"])
    v = (minor, 2) if info["swapped"] else (2, minor)
    dac_bytes = L.build_dac(v[0], v[1], info["socc"], dev_uuid, int(case["revocation"]), bytes(case["dac_hash"]), int(case["pinned"]),
                            int(case["default"]), int(case["dac_vu"]), chal)
    with o.spsdk("dac", "parse"):
        dac = DebugAuthenticationChallenge.parse(dac_bytes)
        got = (dac.version.major, dac.version.minor, dac.socc, dac.uuid, dac.rotid_rkh_revocation, dac.rotid_rkth_hash, dac.cc_soc_pinned,
               dac.cc_soc_default, dac.cc_vu, dac.challenge)
        o.eq("dac", "fields", got, (2, minor, info["socc"], dev_uuid, int(case["revocation"]), bytes(case["dac_hash"]), int(case["pinned"]),
                                    int(case["default"]), int(case["dac_vu"]), chal))


# ------------------------------------------------------------------ calibration
def calibrate(ctx) -> None:
    with open(os.path.join(core.VERIF_DIR, "fixtures", "c15", "golden.json"), encoding="utf-8") as f:
        g = json.load(f)
    for v in g["rot_vectors"]:
        keys = [tuple(k) for k in v["keys"]]
        got = {"rkth_v1": lambda: L.rkth_v1(keys)[1], "rkth_v21": lambda: L.rkth_v21(keys)[1], "srkh": lambda: L.srkh(keys)}[v["scheme"]]()
        if got.hex() != v["hash"]:
            raise HarnessError("RoT hash reference %s disagrees with stored example of %s" % (v["scheme"], v["source"]))
    for name, ele in (("new_dck_rsa2048.cert", False), ("new_dck_secp256r1.cert", False), ("lpc55s3x_dck_secp384r1.cert", False),
                      ("rt118x_ecc256.dc", True), ("rt118x_rsa2048.dc", True)):
        try:
            m = L.parse_dc(bytes.fromhex(g["stored"][name]), ele)
        except L.LayoutError as exc:
            raise HarnessError("layout reader rejects stored credential %s: %s" % (name, exc)) from exc
        if not L.dc_signature_ok(m):
            raise HarnessError("reference verification rejects the signature of stored credential %s" % name)
        if L.dc_signature_ok(m, m["signed"][:-1] + bytes([m["signed"][-1] ^ 1])):
            raise HarnessError("reference verification accepts a modified stored credential %s" % name)
    # the faster ECDSA verification of dat_layout against the plain one of pk.py (valid, wrong message, swapped r/s)
    from cryptography.hazmat.primitives import hashes  # noqa: PLC0415
    from cryptography.hazmat.primitives.asymmetric import ec, utils  # noqa: PLC0415
    from vf.ref import pk  # noqa: PLC0415

    for curve, h in (("secp256r1", hashes.SHA256()), ("secp384r1", hashes.SHA384()), ("secp521r1", hashes.SHA512())):
        for d in (1, 0xC15C15, pk.CURVES[curve].n - 2):
            key, (x, y) = K.ec_key(curve, d), K.ec_public_xy(curve, d)
            r, s_ = utils.decode_dss_signature(key.sign(b"calibration", ec.ECDSA(h)))
            for rr, ss, msg in ((r, s_, b"calibration"), (r, s_, b"calibratioN"), (s_, r, b"calibration")):
                a = L.ecdsa_verify(pk.CURVES[curve], (x, y), rr, ss, msg, L.HASH_BY_CURVE[curve])
                b = pk.ecdsa_verify(pk.CURVES[curve], (x, y), rr, ss, msg, L.HASH_BY_CURVE[curve])
                if a != b or a != (msg == b"calibration" and rr == r):
                    raise HarnessError("ECDSA reference verifications disagree on %s" % curve)
    # own database walk against SPSDK's database
    from spsdk.utils.database import DatabaseManager, get_db, get_families  # noqa: PLC0415

    fams = dat_families()
    if sorted(get_families(DatabaseManager.DAT)) != sorted(fams):
        raise HarnessError("own YAML walk and SPSDK disagree on the set of DAT families")
    for name, f in fams.items():
        if get_db(name).name != f["latest"]:
            raise HarnessError("latest revision of %s" % name)
        for rev, info in f["revs"].items():
            db = get_db(name, rev)
            try:
                pss = db.get_bool(DatabaseManager.SIGNING, "pss_padding")
            except Exception:  # noqa: BLE001
                pss = False
            got = {"socc": db.get_int("dat", "socc"), "ele": db.get_bool("dat", "based_on_ele", False), "cnt": db.get_int("dat", "ele_cnt_version", 1),
                   "sha256": db.get_bool("dat", "dat_is_using_sha256_always", False), "swapped": db.get_bool("dat", "dac_version_is_swapped", False),
                   "nodac": db.get_bool("dat", "rot_not_part_of_dac", False), "inv": db.get_bool("dat", "rot_could_be_invalid", False), "pss": pss}
            if got != info:
                raise HarnessError("family attributes of %s/%s: YAML walk %r, SPSDK %r" % (name, rev, info, got))



def parts(ctx):
    _STATE["work"] = ctx.work
    return [
        HypPart("dc", lambda: _dc_strategy(ctx.tier), run_dc, {"quick": 400, "thorough": 40000}),
        HypPart("elev2", lambda: _elev2_strategy(ctx.tier), run_elev2, {"quick": 100, "thorough": 8000}),
        pins.part(["dat", "signing"], 100),  # SoC class, EdgeLock flag, hash / version-order / padding attributes per device
    ]
