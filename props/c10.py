"""C10 - bootloader protocols: data arrives intact, results mirror the device, faults surface (DESIGN.md section 4, C10)."""
from __future__ import annotations

import os
import struct

from hypothesis import strategies as st

from vf.core import EnumPart, Fail, HarnessError, HypPart, Oracle, REPO, _exc_text, spsdk_frame
from vf.ref import mboot_device as M
from vf.ref import sdp_device as S

ID = "C10"
LEVEL = "fault_enumeration"
TECHNIQUE = (
    "generated operation histories run through the real McuBoot/SDP/SDPS classes and the real framing layers against an executable "
    "reference model of the device side plugged in as a DeviceBase stub; every position of the device-to-host byte stream of short "
    "histories is enumerated as a fault point, longer histories sample fault points; the composite listings (properties, memories) are "
    "operations of the alphabet; the harness owns the clock of the host's time-outs (virtual time)"
)
LEVEL_TEXT = (
    "fault enumeration: for a fixed set of short histories per transport (mboot serial framing, mboot USB-HID, SDP UART, SDP USB-HID, SDPS) "
    "every byte position of the device's reply stream is combined with every fault kind the layer can detect in principle and the three "
    "sub-oracles F1 (no success with wrong/partial data), F2 (bounded number of device reads), F3 (documented exception type) are evaluated; "
    "Hypothesis-generated histories (addresses, lengths around packet-size multiples, max packet sizes, device error statuses) check the "
    "fault-free invariants after every step and sample fault points. A pass means no counterexample in that space; real timing, the USB "
    "stack and the serial driver are outside"
)
RULE = (
    "a case is (transport, max packet size, cmd_exception, history of operation dicts, optional fault (kind, position in the fault-free "
    "device-to-host stream)); non-trivial = a data phase longer than one packet or any fault that fired; distinct by (transport, operation "
    "multiset, fault kind, role of the faulted unit) plus case digest for fault-free ones"
)
ASSUMPTIONS = [
    "the device models in vf/ref/mboot_device.py and vf/ref/sdp_device.py are the author's reading of the MCU bootloader / i.MX SDP protocol descriptions; "
    "the framing is calibrated on the reference-manual packets (get-property packet and response, two ping responses) and on an independent bitwise CRC-16/XMODEM",
    "time is virtual: a read on an empty queue raises the device layer's timeout error at once; time.sleep inside spsdk.mboot is replaced by a no-op; "
    "'bounded time' is checked as 'bounded number of device reads'",
    "after the operation in which the fault fired the history stops: the state of a desynchronised link is not part of the property",
    "faults are restricted to what each layer can detect in principle: serial mboot - single bit/byte faults, NAK, ABORT, silence, error status, wrong tags; "
    "USB-HID mboot - zero-length/short/missing/mis-numbered reports, abort, error status, wrong tags (no payload corruption: no checksum); "
    "SDP - silence, lost bytes/reports (detectable by count), short reports, corrupted or error status words (no checksum on data)",
    "success indication of an mboot call = no exception, a truthy/non-None return value and status_code == SUCCESS (status_code is the error channel when cmd_exception is off)",
    "zero-length SDP writes, trust-provisioning/EL2GO commands and the BUSPAL/SDIO/CAN transports are not generated",
    "reset: a device may reset before its response has left it, so 'no response' is read as done by the protocol's hosts; when the fault is the loss of "
    "that response (missing report / silence) the reported success is not compared with the status the device would have sent (a refusal that is lost "
    "as well is a second, masked fault); any response that does arrive is judged as for every other command",
    "SDP UART bit flips are injected into the compared status words except the flips that produce the command's success word itself out of a refusal "
    "word (0x128A8A13 -> 0x128A8A12): on a stream without checksum that is indistinguishable from a genuine success answer",
    "what a device 'received' in a faulted call is what it took in during the data phases it opened for that call (not what earlier calls left in the same sink)",
]
FLOORS = {"fault:fired": 0.075, "multipacket": 0.025, "t:mb_serial": 0.04, "t:mb_hid": 0.025, "t:sdp_uart": 0.005, "t:sdp_hid": 0.005, "faultfree": 0.005,
          "fault:nak": 0.00025, "fault:abort": 0.00025, "outcome:success": 0.01, "outcome:raised": 0.05, "device_error_status": 0.005}

MB_SUCCESS = 0
ERR_STATUSES = [1, 4, 102, 10000, 10001, 10200, 10201, 0xDEADBEEF]


# ================================================================================================ environment
_ENV: dict = {}


class _NoSleepTime:
    """Stands in for the `time` module inside spsdk.mboot: virtual time, no sleeping."""

    def __init__(self, real) -> None:
        self._real = real

    def sleep(self, _s) -> None:
        return None

    def __getattr__(self, name):
        return getattr(self._real, name)


def _env() -> dict:
    if _ENV:
        return _ENV
    import time as _time

    import spsdk.mboot.mcuboot as mcuboot_mod
    import spsdk.mboot.protocol.serial_protocol as serial_mod
    from spsdk.exceptions import SPSDKConnectionError, SPSDKError
    from spsdk.mboot.exceptions import McuBootCommandError
    from spsdk.mboot.interfaces.uart import MbootUARTInterface
    from spsdk.mboot.interfaces.usb import MbootUSBInterface
    from spsdk.sdp.exceptions import SdpCommandError
    from spsdk.sdp.interfaces.uart import SdpUARTInterface
    from spsdk.sdp.interfaces.usb import SdpUSBInterface
    from spsdk.sdp.sdp import SDP
    from spsdk.sdp.sdps import SDPS
    from spsdk.utils.exceptions import SPSDKTimeoutError
    from spsdk.utils.interfaces.device.serial_device import SerialDevice
    from spsdk.utils.interfaces.device.usb_device import UsbDevice

    serial_mod.time = _NoSleepTime(_time)
    mcuboot_mod.time = _NoSleepTime(_time)

    class _StubMixin:
        def _init_stub(self, dev, link, fail_write_at=None):
            self.vdev = dev
            self.vlink = link
            self._opened = False
            self._timeout = 50_000_000
            self.fail_write_at = fail_write_at
            self.n_writes = 0

        @property
        def timeout(self):
            return self._timeout

        @timeout.setter
        def timeout(self, value):
            self._timeout = value

        @property
        def is_opened(self):
            return self._opened

        def open(self):
            self._opened = True

        def close(self):
            self._opened = False

        def write(self, data, timeout=None):
            if not self._opened:
                raise SPSDKConnectionError("Device is not opened for writing")
            self.n_writes += 1
            if self.fail_write_at is not None and self.n_writes > self.fail_write_at:
                raise SPSDKConnectionError("virtual device: write failed")
            self.vdev.host_write(bytes(data))

        def __str__(self):
            return "virtual device (vf reference model)"

    class SerialStub(_StubMixin, SerialDevice):
        def __init__(self, dev, link, fail_write_at=None):  # pylint: disable=super-init-not-called
            self._init_stub(dev, link, fail_write_at)

        def read(self, length, timeout=None):
            if not self._opened:
                raise SPSDKConnectionError("Device is not opened for reading")
            try:
                return self.vlink.host_read(length)
            except M.LinkTimeout:
                raise SPSDKTimeoutError() from None

    class UsbStub(_StubMixin, UsbDevice):
        def __init__(self, dev, link, fail_write_at=None):  # pylint: disable=super-init-not-called
            self._init_stub(dev, link, fail_write_at)
            self.vid, self.pid, self.path, self.serial_number = 0x1FC9, 0x0135, b"vf", ""
            self.vendor_name, self.product_name, self.interface_number = "vf", "vf", 0

        def read(self, length, timeout=None):
            if not self._opened:
                raise SPSDKConnectionError("Device is not opened for reading")
            try:
                return self.vlink.host_read()[:length]
            except M.LinkTimeout:
                raise SPSDKTimeoutError() from None

    from spsdk.mboot.mcuboot import McuBoot
    from spsdk.utils.misc import Timeout

    # The harness owns the clock of the host's time-outs: virtual time advances only while a flooding device answers "not ready"
    # (1 ms per byte read). Wall-clock time plays no part: a worker that the scheduler keeps waiting cannot time out for that.
    Timeout._get_current_time_us = staticmethod(lambda: M.VCLOCK_US[0])

    _ENV.update(
        SerialStub=SerialStub, UsbStub=UsbStub, McuBoot=McuBoot, SDP=SDP, SDPS=SDPS, SPSDKError=SPSDKError,
        McuBootCommandError=McuBootCommandError, SdpCommandError=SdpCommandError,
        MbootUARTInterface=MbootUARTInterface, MbootUSBInterface=MbootUSBInterface,
        SdpUARTInterface=SdpUARTInterface, SdpUSBInterface=SdpUSBInterface,
    )
    return _ENV


def calibrate(ctx) -> None:
    problems = M.selftest()
    if problems:
        raise HarnessError("mboot device model self-test: " + "; ".join(problems))
    # SDP command layout: i.MX reference manual, READ_REGISTER of 4 bytes at 0x20000000, 32 bit access
    if S.sdp_command(0x0101, 0x20000000, 32, 4) != bytes.fromhex("0101" "20000000" "20" "00000004" "00000000" "00"):
        raise HarnessError("SDP command layout")


# ================================================================================================ helpers
def _data(d) -> bytes:
    if isinstance(d, (bytes, bytearray)):
        return bytes(d)
    return M.pattern_bytes(int(d.get("s", 0)), int(d["n"]), d.get("pat", "rand"))


def _clamp(mem_id: int) -> int:
    return mem_id if (mem_id > 255 or mem_id == 0) else 0


class Res:
    """Outcome of one API call."""

    __slots__ = ("value", "exc", "budget")

    def __init__(self, value=None, exc=None, budget=False):
        self.value, self.exc, self.budget = value, exc, budget


def _call(fn) -> Res:
    try:
        return Res(value=fn())
    except M.ReadBudgetExceeded as exc:
        return Res(exc=exc, budget=True)
    except Exception as exc:  # noqa: BLE001 - every exception of the code under test is a datum
        return Res(exc=exc)


def _fail_exc(o: Oracle, sub: str, kind: str, exc: BaseException, detail: str = "") -> None:
    o.fails.append(Fail(sub, "%s:exc:%s" % (kind, type(exc).__name__), spsdk_frame(exc), (detail + " " + _exc_text(exc)).strip()))


# ================================================================================================ mboot operations
def _w32(data: bytes) -> tuple:
    data = data + b"\0" * (-len(data) % 4)
    return struct.unpack("<%dI" % (len(data) // 4), data)


class MbOp:
    """Description of one McuBoot API call: how to call it, which command packets the device must see,
    what the device must hold afterwards (writes) or what must be returned (reads)."""

    def __init__(self, name, kind, tag, call, cmds=None, truth=None, effect=None, region=None, has_data=False):
        self.name, self.kind, self.tag, self.call = name, kind, tag, call
        self.cmds, self.truth, self.effect, self.region, self.has_data = cmds, truth, effect, region, has_data


def _mem_effect(core, op, data):
    got = core.mem.read(op["addr"], len(data))
    return got == data, "device memory at 0x%x holds %s, written %s" % (op["addr"], got[:24].hex(), data[:24].hex())


def _fill_bytes(op) -> bytes:
    n = op["length"]
    return (struct.pack("<I", op["pattern"]) * (n // 4 + 1))[:n]


MB_OPS: dict[str, MbOp] = {}


def _reg(*a, **k):
    op = MbOp(*a, **k)
    MB_OPS[op.name] = op


_reg("write_memory", "write", M.C_WRITE_MEMORY,
     lambda mb, op: mb.write_memory(op["addr"], _data(op["data"]), op.get("mem_id", 0)),
     cmds=lambda op: [(M.C_WRITE_MEMORY, 1, (op["addr"], len(_data(op["data"])), _clamp(op.get("mem_id", 0))))],
     effect=lambda core, op: _mem_effect(core, op, _data(op["data"])),
     region=lambda op: (op["addr"], _data(op["data"])), has_data=True)
_reg("read_memory", "read", M.C_READ_MEMORY,
     lambda mb, op: mb.read_memory(op["addr"], op["length"], op.get("mem_id", 0), fast_mode=bool(op.get("fast", False))),
     cmds=lambda op: [(M.C_READ_MEMORY, 0, (op["addr"], op["length"], _clamp(op.get("mem_id", 0))))],
     truth=lambda core, op: core.mem.read(op["addr"], op["length"]), has_data=True)
_reg("fill_memory", "write", M.C_FILL_MEMORY,
     lambda mb, op: mb.fill_memory(op["addr"], op["length"], op["pattern"]),
     cmds=lambda op: [(M.C_FILL_MEMORY, 0, (op["addr"], op["length"], op["pattern"]))],
     effect=lambda core, op: _mem_effect(core, op, _fill_bytes(op)),
     region=lambda op: (op["addr"], _fill_bytes(op)))
_reg("flash_erase_region", "write", M.C_ERASE_REGION,
     lambda mb, op: mb.flash_erase_region(op["addr"], op["length"], op.get("mem_id", 0)),
     cmds=lambda op: [(M.C_ERASE_REGION, 0, (op["addr"], op["length"], _clamp(op.get("mem_id", 0))))],
     effect=lambda core, op: _mem_effect(core, op, b"\xff" * op["length"]),
     region=lambda op: (op["addr"], b"\xff" * op["length"]))
_reg("flash_erase_all", "write", M.C_ERASE_ALL,
     lambda mb, op: mb.flash_erase_all(op.get("mem_id", 0)),
     cmds=lambda op: [(M.C_ERASE_ALL, 0, (op.get("mem_id", 0),))],
     effect=lambda core, op: (core.mem.read(0x100, 64) == b"\xff" * 64, "flash not erased"))
_reg("flash_erase_all_unsecure", "write", M.C_ERASE_ALL_UNSECURE,
     lambda mb, op: mb.flash_erase_all_unsecure(),
     cmds=lambda op: [(M.C_ERASE_ALL_UNSECURE, 0, ())],
     effect=lambda core, op: (core.mem.read(0x100, 64) == b"\xff" * 64, "flash not erased"))
_reg("get_property", "read", M.C_GET_PROPERTY,
     lambda mb, op: mb.get_property(op["tag"], op.get("index", 0)),
     cmds=lambda op: [(M.C_GET_PROPERTY, 0, (op["tag"], op.get("index", 0)))],
     truth=lambda core, op: (list(core.props[op["tag"]]) if op["tag"] in core.props else None))
# composite listing: one GetProperty exchange per known tag, in the order of the tag table; a property the device refuses is left
# out, any other failure of an exchange fails the call. No command of its own (tag 0: no forced device status). The returned
# objects are rendered as [tag, text]; the text of a value is the one SPSDK's own value parser gives for the words the device holds
# (the oracle is about what travels over the link and which entries are listed, not about the formatting of a value).
_PROP_TAGS = list(range(0x00, 0x23)) + [0xFF]


def _proplist(lst):
    return None if lst is None else [[int(p.tag), p.to_str()] for p in lst]


def _proplist_truth(core, op):
    from spsdk.mboot.properties import parse_property_value  # noqa: PLC0415

    out = []
    for t in _PROP_TAGS:
        if t in core.props:
            v = parse_property_value(t, list(core.props[t]))
            if v is not None:
                out.append([t, v.to_str()])
    return out


_reg("get_property_list", "read", 0,
     lambda mb, op: _proplist(mb.get_property_list()),
     cmds=lambda op: [(M.C_GET_PROPERTY, 0, (t, 0)) for t in _PROP_TAGS],
     truth=_proplist_truth)
# composite memory listing: flash regions (start / size / sector size per index until the device refuses or repeats the first
# region), RAM regions, then the external memories of bootloaders that have the attribute property. What the device holds decides
# the exchanges; an exchange the device does not answer at all makes the listing incomplete, which must not be reported as success.
_EXT_MEM_IDS = list(set([1, 4, 4, 8, 9, 10, 11, 16, 256, 257, 272, 273, 288, 289]))  # the order the code under test derives the same way


def _memlist(d):
    if d is None:
        return None
    out = {}
    for k, regs in d.items():
        if k == "internal_flash":
            out[k] = [[r.index, r.start, r.size, r.sector_size] for r in regs]
        elif k == "internal_ram":
            out[k] = [[r.index, r.start, r.size] for r in regs]
        else:
            out[k] = [[r.mem_id, r.value] for r in regs]
    return out


def _memlist_plan(core):
    """(exchanges, listing) for what the device holds."""
    P = core.props
    ex, out = [], {}

    def walk(tags, name):
        got = []
        for t in tags:
            ex.append((M.C_GET_PROPERTY, 0, (t, 0)))
            if t not in P:
                return
            got.append(P[t][0])
        out[name] = [[0] + got]
        ex.append((M.C_GET_PROPERTY, 0, (tags[0], 1)))  # the model answers every index alike: the first region again ends the walk

    walk([0x03, 0x04, 0x05], "internal_flash")
    walk([0x0E, 0x0F], "internal_ram")
    ex.append((M.C_GET_PROPERTY, 0, (M.P_CURRENT_VERSION, 0)))
    if M.P_CURRENT_VERSION in P:
        v = P[M.P_CURRENT_VERSION][0]
        ids = [1] if ((v >> 16) & 0xFF, (v >> 8) & 0xFF, v & 0xFF) <= (2, 0, 0) else _EXT_MEM_IDS
        ext = []
        for mid in ids:
            ex.append((M.C_GET_PROPERTY, 0, (0x19, mid)))
            if 0x19 not in P:
                break
            ext.append([mid, P[0x19][0]])
        if ext:
            out["external_mems"] = ext
    return ex, out


_reg("get_memory_list", "read", 0,
     lambda mb, op: _memlist(mb.get_memory_list()),
     cmds=lambda op: [],
     truth=lambda core, op: _memlist_plan(core)[1])
_reg("set_property", "write", M.C_SET_PROPERTY,
     lambda mb, op: mb.set_property(op["tag"], op["value"]),
     cmds=lambda op: [(M.C_SET_PROPERTY, 0, (op["tag"], op["value"]))],
     effect=lambda core, op: (core.props.get(op["tag"]) == [op["value"]], "property 0x%x is %r" % (op["tag"], core.props.get(op["tag"]))))
_reg("receive_sb_file", "write", M.C_RECEIVE_SB,
     lambda mb, op: mb.receive_sb_file(_data(op["data"]), check_errors=bool(op.get("check_errors", False))),
     cmds=lambda op: [(M.C_RECEIVE_SB, 1, (len(_data(op["data"])),))],
     effect=lambda core, op: (bool(core.sb_files) and bytes(core.sb_files[-1]) == _data(op["data"]), "SB file received by the device differs"),
     has_data=True)
_reg("flash_program_once", "write", M.C_PROGRAM_ONCE,
     lambda mb, op: mb.flash_program_once(op["index"], _data(op["data"])),
     cmds=lambda op: [(M.C_PROGRAM_ONCE, 0, (op["index"], len(_data(op["data"]))) + _w32(_data(op["data"])))],
     effect=lambda core, op: (all(core.once.get((op["index"] & 0xFFFFFF) + k, 0) & w == w for k, w in enumerate(_w32(_data(op["data"])))), "OTP words not programmed"))
_reg("efuse_program_once", "write", M.C_PROGRAM_ONCE,
     lambda mb, op: mb.efuse_program_once(op["index"], op["value"], verify=bool(op.get("verify", False))),
     cmds=lambda op: [(M.C_PROGRAM_ONCE, 0, (op["index"], 4, op["value"]))] + ([(M.C_READ_ONCE, 0, (op["index"] & 0xFFFFFF, 4))] if op.get("verify") else []),
     effect=lambda core, op: (core.once.get(op["index"] & 0xFFFFFF, 0) & op["value"] == op["value"], "OTP word not programmed"))
_reg("flash_read_once", "read", M.C_READ_ONCE,
     lambda mb, op: mb.flash_read_once(op["index"], op.get("count", 4)),
     cmds=lambda op: [(M.C_READ_ONCE, 0, (op["index"], op.get("count", 4)))],
     truth=lambda core, op: b"".join(struct.pack("<I", core.once.get((op["index"] & 0xFFFFFF) + k, 0)) for k in range(op.get("count", 4) // 4)))
_reg("efuse_read_once", "read", M.C_READ_ONCE,
     lambda mb, op: mb.efuse_read_once(op["index"]),
     cmds=lambda op: [(M.C_READ_ONCE, 0, (op["index"], 4))],
     truth=lambda core, op: core.once.get(op["index"] & 0xFFFFFF, 0))
_reg("load_image", "write", 0,
     lambda mb, op: mb.load_image(_data(op["data"])),
     cmds=lambda op: [],
     effect=lambda core, op: (bytes(core.loaded_image[len(core.loaded_image) - len(_data(op["data"])):]) == _data(op["data"]) , "image bytes received differ"),
     has_data=True)
_reg("configure_memory", "ctl", M.C_CONFIGURE_MEMORY,
     lambda mb, op: mb.configure_memory(op["addr"], op["mem_id"]),
     cmds=lambda op: [(M.C_CONFIGURE_MEMORY, 0, (op["mem_id"], op["addr"]))])
_reg("call", "ctl", M.C_CALL, lambda mb, op: mb.call(op["addr"], op["arg"]), cmds=lambda op: [(M.C_CALL, 0, (op["addr"], op["arg"]))])
_reg("execute", "ctl", M.C_EXECUTE, lambda mb, op: mb.execute(op["addr"], op["arg"], op["sp"]),
     cmds=lambda op: [(M.C_EXECUTE, 0, (op["addr"], op["arg"], op["sp"]))])
_reg("reset", "ctl", M.C_RESET, lambda mb, op: mb.reset(timeout=0, reopen=bool(op.get("reopen", True))), cmds=lambda op: [(M.C_RESET, 0, ())])
_reg("kp_enroll", "ctl", M.C_KEY_PROVISIONING, lambda mb, op: mb.kp_enroll(), cmds=lambda op: [(M.C_KEY_PROVISIONING, 0, (0,))])
_reg("kp_set_intrinsic_key", "ctl", M.C_KEY_PROVISIONING, lambda mb, op: mb.kp_set_intrinsic_key(op["key_type"], op["key_size"]),
     cmds=lambda op: [(M.C_KEY_PROVISIONING, 0, (2, op["key_type"], op["key_size"]))])
_reg("kp_write_nonvolatile", "ctl", M.C_KEY_PROVISIONING, lambda mb, op: mb.kp_write_nonvolatile(op.get("mem_id", 0)),
     cmds=lambda op: [(M.C_KEY_PROVISIONING, 0, (3, op.get("mem_id", 0)))])
_reg("kp_read_nonvolatile", "ctl", M.C_KEY_PROVISIONING, lambda mb, op: mb.kp_read_nonvolatile(op.get("mem_id", 0)),
     cmds=lambda op: [(M.C_KEY_PROVISIONING, 0, (4, op.get("mem_id", 0)))])
_reg("kp_set_user_key", "write", M.C_KEY_PROVISIONING,
     lambda mb, op: mb.kp_set_user_key(op["key_type"], _data(op["data"])),
     cmds=lambda op: [(M.C_KEY_PROVISIONING, 1, (1, op["key_type"], len(_data(op["data"]))))],
     effect=lambda core, op: (bytes(core.user_keys.get(op["key_type"], b"")) == _data(op["data"]), "user key received differs"),
     has_data=True)
_reg("kp_write_key_store", "write", M.C_KEY_PROVISIONING,
     lambda mb, op: mb.kp_write_key_store(_data(op["data"])),
     cmds=lambda op: [(M.C_KEY_PROVISIONING, 1, (5, 0, len(_data(op["data"]))))],
     effect=lambda core, op: (core.key_store == _data(op["data"]), "key store received differs"), has_data=True)
_reg("kp_read_key_store", "read", M.C_KEY_PROVISIONING, lambda mb, op: mb.kp_read_key_store(),
     cmds=lambda op: [(M.C_KEY_PROVISIONING, 0, (6,))], truth=lambda core, op: core.key_store, has_data=True)
_reg("generate_key_blob", "read", M.C_GENERATE_KEY_BLOB,
     lambda mb, op: mb.generate_key_blob(_data(op["data"]), op.get("key_sel", 0), op.get("count", 72)),
     cmds=lambda op: [(M.C_GENERATE_KEY_BLOB, 1, (op.get("key_sel", 0), len(_data(op["data"])), 0)), (M.C_GENERATE_KEY_BLOB, 0, (op.get("key_sel", 0), op.get("count", 72), 1))],
     truth=lambda core, op: __import__("hashlib").shake_128(b"blob" + _data(op["data"])).digest(op.get("count", 72)), has_data=True)
_reg("flash_read_resource", "read", M.C_READ_RESOURCE,
     lambda mb, op: mb.flash_read_resource(op["addr"], op["length"], op.get("option", 1)),
     cmds=lambda op: [(M.C_READ_RESOURCE, 0, (op["addr"], op["length"], op.get("option", 1)))],
     truth=lambda core, op: core.fuses.read(op["addr"] + (op.get("option", 1) << 20), op["length"]), has_data=True)
_reg("flash_security_disable", "ctl", M.C_SECURITY_DISABLE, lambda mb, op: mb.flash_security_disable(_data(op["data"])))
_reg("reliable_update", "ctl", M.C_RELIABLE_UPDATE, lambda mb, op: mb.reliable_update(op["addr"]), cmds=lambda op: [(M.C_RELIABLE_UPDATE, 0, (op["addr"],))])
_reg("update_life_cycle", "ctl", M.C_UPDATE_LIFE_CYCLE, lambda mb, op: mb.update_life_cycle(op["value"]), cmds=lambda op: [(M.C_UPDATE_LIFE_CYCLE, 0, (op["value"],))])
_reg("ele_message", "ctl", M.C_ELE_MESSAGE, lambda mb, op: mb.ele_message(op["a"], op["b"], op["c"], op["d"]),
     cmds=lambda op: [(M.C_ELE_MESSAGE, 0, (0, op["a"], op["b"], op["c"], op["d"]))])
_reg("fuse_program", "write", M.C_FUSE_PROGRAM,
     lambda mb, op: mb.fuse_program(op["addr"], _data(op["data"]), op.get("mem_id", 0)),
     cmds=lambda op: [(M.C_FUSE_PROGRAM, 1, (op["addr"], len(_data(op["data"])), _clamp(op.get("mem_id", 0))))],
     effect=lambda core, op: (core.fuses.read(op["addr"], len(_data(op["data"]))) == _data(op["data"]), "fuse bytes received differ"), has_data=True)
_reg("fuse_read", "read", M.C_FUSE_READ,
     lambda mb, op: mb.fuse_read(op["addr"], op["length"], op.get("mem_id", 0)),
     cmds=lambda op: [(M.C_FUSE_READ, 0, (op["addr"], op["length"], _clamp(op.get("mem_id", 0))))],
     truth=lambda core, op: core.fuses.read(op["addr"], op["length"]), has_data=True)


# ================================================================================================ sessions
MPS_PROBE = ("cmd", M.C_GET_PROPERTY, 0, (M.P_MAX_PACKET_SIZE, 0))


class MbSession:
    """One McuBoot object on top of the real framing layer on top of the device model."""

    def __init__(self, case: dict, fault=None, caps=None) -> None:
        env = _env()
        self.case = case
        self.t = case["t"]
        self.mps = int(case["mps"])
        plan = M.FaultPlan(fault if fault and fault["kind"] != "write_fail" else None)
        fail_write_at = fault["n"] if fault and fault["kind"] == "write_fail" else None
        cap = caps[0] if caps else 1 << 30
        self.core = M.MbootCore(self.mps, mem_seed=int(case.get("mem_seed", 0)))
        if self.t == "mb_serial":
            self.link = M.SerialLink(plan, cap, flush_on_write=bool(case.get("flush", True)))
            self.dev = M.MbootSerialDevice(self.core, self.link, ping_dummy=bytes(case.get("ping_dummy", 0)))
            self.stub = env["SerialStub"](self.dev, self.link, fail_write_at)
            if fault and fault["kind"] == "notready":
                self.stub.timeout = FLOOD_TIMEOUT_MS
            self.itf = env["MbootUARTInterface"](self.stub)
        else:
            self.link = M.HidLink(plan, cap)
            self.dev = M.MbootHidDevice(self.core, self.link, pad_to=(self.mps + 4) if case.get("pad") else 0)
            self.stub = env["UsbStub"](self.dev, self.link, fail_write_at)
            self.itf = env["MbootUSBInterface"](self.stub)
        self.write_cap = caps[1] if caps else 1 << 30
        self.api = env["McuBoot"](self.itf, cmd_exception=bool(case.get("exc", False)))

    def fault_fired(self) -> bool:
        return self.link.plan.fired or (self.stub.fail_write_at is not None and self.stub.n_writes > self.stub.fail_write_at)

    def queue_len(self) -> int:
        return len(self.link.queue)

    def run_op(self, k: int, op: dict) -> Res:
        self.link.cur_op = k
        if op["op"] == "open":
            return _call(self.api.open)
        d = MB_OPS[op["op"]]
        df = op.get("dev_fail")
        self.core.force = {"tag": d.tag, "stage": df["stage"], "status": df["status"]} if (df and d.tag) else None
        res = _call(lambda: d.call(self.api, op))
        self.core.force = None
        return res

    def status(self):
        return int(self.api.status_code)


def _mb_expected_status(op: dict, core, t: str = ""):
    d = MB_OPS[op["op"]]
    if op["op"] == "read_memory" and t == "mb_hid" and not op.get("fast") and op["length"] == 0:
        return None  # the USB path sends no command for an empty read: nothing to mirror
    df = op.get("dev_fail")
    if df and d.tag and (df["stage"] == "initial" or d.has_data):
        return int(df["status"])
    if op["op"] == "get_property" and op["tag"] not in core.props:
        return M.S_UNKNOWN_PROPERTY
    if op["op"] == "set_property":
        if op["tag"] in core.read_only_props:
            return M.S_READ_ONLY_PROPERTY
        if op["tag"] not in core.props:
            return M.S_UNKNOWN_PROPERTY
    return 0


def _mb_expected_cmds(op: dict, sess: MbSession):
    d = MB_OPS[op["op"]]
    if d.cmds is None:
        return None
    if op["op"] == "read_memory" and sess.t == "mb_hid" and not op.get("fast"):
        mps, n, a = sess.mps, op["length"], op["addr"]
        return [(M.C_READ_MEMORY, 0, (a + i, min(mps, n - i), _clamp(op.get("mem_id", 0)))) for i in range(0, n, mps)]
    if op["op"] == "get_memory_list":
        return _memlist_plan(sess.core)[0]
    return d.cmds(op)


def _is_prefix_write(pre: bytes, post: bytes, data: bytes) -> bool:
    k = 0
    n = len(data)
    while k < n and post[k] == data[k]:
        k += 1
    return post[k:] == pre[k:]


def mb_pre(sess: MbSession, op: dict) -> dict:
    """What has to be known before the call: the truth for reads, the old content for writes, log marks."""
    pre = {"log": len(sess.core.log), "reads": sess.link.reads, "writes": sess.link.writes, "delivered": sess.link.bytes_delivered,
           "image": len(sess.core.loaded_image), "sb": len(sess.core.sb_files), "in_phases": len(sess.core.in_phases)}
    if op["op"] == "open":
        return pre
    d = MB_OPS[op["op"]]
    pre["status"] = _mb_expected_status(op, sess.core, sess.t)
    if d.truth:
        pre["truth"] = d.truth(sess.core, op)
    if d.region:
        addr, data = d.region(op)
        pre["region"] = sess.core.mem.read(addr, len(data))
    return pre


def mb_check_faultfree(o: Oracle, sess: MbSession, k: int, op: dict, res: Res, pre: dict) -> None:
    env = _env()
    name = op["op"]
    core = sess.core
    where = "step %d %s" % (k, name)
    if res.budget:
        o.fail("faultfree", "read_budget", where)
        return
    if name == "open":
        if res.exc is not None:
            _fail_exc(o, "faultfree", "open", res.exc, where)
        elif sess.t == "mb_serial":
            o.check("mirror", sess.itf.protocol_version == 0x50010200 and sess.itf.options == 0, "ping_version", "%s: protocol version 0x%x" % (where, sess.itf.protocol_version))
        _mb_link_invariants(o, sess, where, pre)
        return
    d = MB_OPS[name]
    status = pre["status"]
    if status is None:
        if res.exc is not None:
            _fail_exc(o, "faultfree", name, res.exc, where)
        else:
            o.check("read_data", res.value == b"", name, "%s: empty read returned %s" % (where, _short(res.value)))
        _mb_link_invariants(o, sess, where, pre)
        return
    exc_mode = bool(sess.case.get("exc"))
    if res.exc is not None:
        if exc_mode and status != 0 and isinstance(res.exc, env["McuBootCommandError"]):
            o.check("mirror", res.exc.error_value == status, "exception_status", "%s: McuBootCommandError carries %r, device sent %d" % (where, res.exc.error_value, status))
        else:
            _fail_exc(o, "faultfree", name, res.exc, where)
    else:
        if exc_mode and status != 0 and name != "load_image":
            o.fail("mirror", "error_status_not_raised", "%s: device status %d, cmd_exception is on, call returned %r" % (where, status, _short(res.value)))
        got_status = sess.status()
        o.check("mirror", got_status == status, "status_code", "%s: status_code %d, device sent %d" % (where, got_status, status))
        v = res.value
        if d.kind == "read":
            if status == 0:
                want = pre["truth"]
                ok = (v == want) if not isinstance(want, (bytes, bytearray)) else (isinstance(v, (bytes, bytearray)) and bytes(v) == want)
                o.check("read_data", ok, name, "%s: returned %s, device holds %s" % (where, _short(v), _short(want)))
            elif not (op.get("dev_fail") and op["dev_fail"]["stage"] == "final"):
                o.check("mirror", not v, "value_on_error", "%s: device status %d but the call returned %s" % (where, status, _short(v)))
        else:
            o.check("mirror", v is (status == 0), "return_value", "%s: returned %r, device status %d" % (where, v, status))
    if status == 0 and d.effect and res.exc is None:
        ok, detail = d.effect(core, op)
        o.check("write_data", ok, name, "%s: %s" % (where, detail))
    # command packets seen by the device
    exp = _mb_expected_cmds(op, sess)
    own_probe = name in ("get_property_list", "get_memory_list") or (name == "get_property" and op["tag"] == M.P_MAX_PACKET_SIZE)
    got = [e[1:] for e in core.log[pre["log"]:] if e[0] == "cmd" and (own_probe or e != MPS_PROBE)]
    if exp is not None:
        if status != 0:
            exp, got = exp[:1], got[:1]
        o.check("commands", got == exp, name, "%s: device saw %r, protocol defines %r" % (where, got[:4], exp[:4]))
    if d.has_data and status == 0 and d.kind == "write":
        sizes = [e[1] for e in core.log[pre["log"]:] if e[0] in ("data_in", "image_data")]
        n = len(_data(op["data"]))
        o.check("write_data", sum(sizes) == n and all(0 < s <= sess.mps for s in sizes), "packets", "%s: %d bytes in packets %r, max packet size %d" % (where, n, sizes[:6], sess.mps))
    _mb_link_invariants(o, sess, where, pre)


def _mb_link_invariants(o: Oracle, sess, where: str, pre: dict) -> None:
    core = sess.core
    if core.violations:
        o.fail("protocol", "violation", "%s: %s" % (where, "; ".join(core.violations[:3])))
        del core.violations[:]
    if sess.dev.events:
        o.fail("protocol", "abandoned", "%s: %s" % (where, "; ".join(sess.dev.events[:3])))
        del sess.dev.events[:]
    o.check("protocol", sess.queue_len() == 0, "unread_reply", "%s: %d units/bytes sent by the device were never read" % (where, sess.queue_len()))
    link = sess.link
    reads, delivered, writes = link.reads - pre["reads"], link.bytes_delivered - pre["delivered"], link.writes - pre["writes"]
    o.check("F2", reads <= delivered + writes + 4, "reads_faultfree", "%s: %d reads for %d bytes" % (where, reads, delivered))


def _short(v) -> str:
    if isinstance(v, (bytes, bytearray)):
        return "bytes[%d]:%s" % (len(v), bytes(v[:24]).hex())
    r = repr(v)
    return r if len(r) < 120 else r[:120] + "..."


def _response_lost(sess, k: int) -> bool:
    """The fault is a loss (missing report / the device falls silent) and no complete response of operation k reached the host."""
    return sess.link.plan.kind in ("missing", "truncate") and k not in sess.link.resp_delivered


def _positive(kind: str, v) -> bool:
    return (v is not None) if kind == "read" else (v is True)


def mb_check_fault(o: Oracle, sess: MbSession, k: int, op: dict, res: Res, pre: dict, ref: Res) -> str:
    """F1/F2/F3 for the operation in which the fault fired; returns an outcome label."""
    env = _env()
    name = op["op"]
    where = "step %d %s fault %r" % (k, name, sess.link.plan.fault or sess.case.get("fault"))
    link = sess.link
    if res.budget:
        o.fail("F2", "read_budget", "%s: the call did not end within %d device reads" % (where, link.read_budget))
        return "budget"
    reads, delivered, writes = link.reads - pre["reads"], link.bytes_delivered - pre["delivered"], link.writes - pre["writes"]
    o.check("F2", reads <= delivered + writes + 16, "reads", "%s: %d reads, %d bytes delivered, %d writes" % (where, reads, delivered, writes))
    if getattr(link, "flood_exceeded", False):
        o.fail("F2", "notready_unbounded", "%s: the device answered 'not ready' (0x00) %d times during %.0f s and the call was still waiting; the link time-out is %d ms"
               % (where, link.flood_reads, M.FLOOD_BOUND_S, FLOOD_TIMEOUT_MS))
        link.flood_exceeded = False
    if res.exc is not None:
        if not isinstance(res.exc, (env["SPSDKError"], TimeoutError)):
            _fail_exc(o, "F3", "undocumented", res.exc, where)
        outcome = "raised:" + type(res.exc).__name__
    else:
        outcome = "returned"
    core = sess.core
    if name == "open":
        return outcome
    d = MB_OPS[name]
    success = res.exc is None and sess.status() == 0 and _positive(d.kind, res.value)
    if success:
        outcome = "success"
        if d.kind == "read":
            want = ref.value
            v = res.value
            same = bytes(v) == bytes(want) if isinstance(want, (bytes, bytearray)) and isinstance(v, (bytes, bytearray)) else v == want
            if name == "get_property_list" and not same and sess.link.plan.kind == "errstatus" and isinstance(v, list):
                # an error status is the device's way of saying "no such property": the listing then lacks exactly that entry
                same = len(v) == len(want) - 1 and any(want[:i] + want[i + 1:] == v for i in range(len(want)))
            if name == "get_memory_list" and not same and sess.link.plan.kind == "errstatus" and isinstance(v, dict):
                # an error status ends the walk over one kind of memory (that is how the device says "no further region")
                same = all(k in want and v[k] == want[k][: len(v[k])] for k in v)
            o.check("F1", same, "read:" + name, "%s: success reported with %s, the device holds %s" % (where, _short(v), _short(want)))
        elif name == "reset" and _response_lost(sess, k):
            # A reset may take effect before the response has left the device, so for this command alone the protocol's hosts
            # (the code under test says so in its log text) read "no response at all" as done. With the response lost the host holds
            # no evidence of the device's status: a refusal (dev_fail) that is lost as well is a second, masked fault - not judged.
            o.label("reset:response_lost")
        else:
            done = core.last_final_status == 0 or not d.tag  # load-image has no command and no status of its own
            if d.effect and done:
                done, _ = d.effect(core, op)
            o.check("F1", done, "write:" + name, "%s: True/SUCCESS reported, device's final status %r, effect complete: %s" % (where, core.last_final_status, done))
    elif res.exc is None:
        outcome = "failure_return"
        # a positive return value (True / data) is the success indication of the call; together with an error
        # status it reports success for an operation the host itself knows to have failed
        if d.kind == "write" and res.value is True and sess.status() != 0:
            o.fail("F1", "true_with_error_status:" + name, "%s: returned True although status_code is %d" % (where, sess.status()))
    if d.region:
        addr, data = d.region(op)
        post = core.mem.read(addr, len(data))
        o.check("F1", _is_prefix_write(pre["region"], post, data), "memory_not_prefix:" + name, "%s: device memory is not old content overwritten by a prefix of the data" % where)
    if d.kind == "write" and d.has_data and d.tag:
        # what the device took in during the data phase(s) it opened for THIS call (nothing when it never accepted the command:
        # whatever an earlier call left in the same sink - user key of the same type, previous SB file - is not this call's doing)
        got = b"".join(bytes(ph.received) for ph in core.in_phases[pre["in_phases"]:] if ph.tag == d.tag)
        want = _data(op["data"])
        o.check("F1", want[: len(got)] == got, "received_not_prefix:" + name, "%s: the device received %s" % (where, _short(got)))
    return outcome


# ================================================================================================ SDP
SDP_HAB_LOCKED = 2  # spsdk.sdp.error_codes.StatusCode.HAB_IS_LOCKED


def _sdp_write_count(op) -> int:
    count, fmt = op.get("count", 4), op["fmt"]
    if op.get("safe"):
        align = count % (fmt // 8)
        if align:
            count += fmt // 8 - align
        count = min(count, 4)
    return count


class SdpOp:
    def __init__(self, name, kind, tag, call, cmd, ok_word=None, fail_code=None, truth=None, effect=None):
        self.name, self.kind, self.tag, self.call, self.cmd = name, kind, tag, call, cmd
        self.ok_word, self.fail_code, self.truth, self.effect = ok_word, fail_code, truth, effect


SDP_OPS = {
    "read": SdpOp("read", "read", S.T_READ_REGISTER,
                  lambda sdp, op: (sdp.read_safe if op.get("safe") else sdp.read)(op["addr"], op["length"], op["fmt"]),
                  lambda op: (S.T_READ_REGISTER, op["addr"], op["fmt"], op["length"], 0),
                  truth=lambda core, op: core.mem.read(op["addr"], op["length"])),
    "write": SdpOp("write", "write", S.T_WRITE_REGISTER,
                   lambda sdp, op: (sdp.write_safe if op.get("safe") else sdp.write)(op["addr"], op["value"], op.get("count", 4), op["fmt"]),
                   lambda op: (S.T_WRITE_REGISTER, op["addr"], op["fmt"], _sdp_write_count(op), op["value"]),
                   ok_word=S.WRITE_DATA_OK, fail_code=11,
                   effect=lambda core, op: core.mem.read(op["addr"], op["fmt"] // 8) == (op["value"] & ((1 << op["fmt"]) - 1)).to_bytes(op["fmt"] // 8, "little")),
    "write_file": SdpOp("write_file", "write", S.T_WRITE_FILE, lambda sdp, op: sdp.write_file(op["addr"], _data(op["data"])),
                        lambda op: (S.T_WRITE_FILE, op["addr"], 0, len(_data(op["data"])), 0), ok_word=S.WRITE_FILE_OK, fail_code=12,
                        effect=lambda core, op: core.mem.read(op["addr"], len(_data(op["data"]))) == _data(op["data"])),
    "write_dcd": SdpOp("write_dcd", "write", S.T_WRITE_DCD, lambda sdp, op: sdp.write_dcd(op["addr"], _data(op["data"])),
                       lambda op: (S.T_WRITE_DCD, op["addr"], 0, len(_data(op["data"])), 0), ok_word=S.WRITE_DATA_OK, fail_code=13,
                       effect=lambda core, op: bool(core.dcd) and core.dcd[-1] == (op["addr"], _data(op["data"]))),
    "write_csf": SdpOp("write_csf", "write", S.T_WRITE_CSF, lambda sdp, op: sdp.write_csf(op["addr"], _data(op["data"])),
                       lambda op: (S.T_WRITE_CSF, op["addr"], 0, len(_data(op["data"])), 0), ok_word=S.WRITE_DATA_OK, fail_code=14,
                       effect=lambda core, op: bool(core.csf) and core.csf[-1] == (op["addr"], _data(op["data"]))),
    "skip_dcd": SdpOp("skip_dcd", "write", S.T_SKIP_DCD, lambda sdp, op: sdp.skip_dcd(), lambda op: (S.T_SKIP_DCD, 0, 0, 0, 0),
                      ok_word=S.SKIP_DCD_OK, fail_code=15),
    "jump_and_run": SdpOp("jump_and_run", "ctl", S.T_JUMP, lambda sdp, op: sdp.jump_and_run(op["addr"]), lambda op: (S.T_JUMP, op["addr"], 0, 0, 0),
                          effect=lambda core, op: bool(core.jumps) and core.jumps[-1] == op["addr"]),
    "read_status": SdpOp("read_status", "read", S.T_ERROR_STATUS, lambda sdp, op: sdp.read_status(), lambda op: (S.T_ERROR_STATUS, 0, 0, 0, 0),
                         truth=lambda core, op: core.error_status),
    "set_baudrate": SdpOp("set_baudrate", "ctl", S.T_SET_BAUDRATE, lambda sdp, op: sdp.set_baudrate(op["baudrate"]),
                          lambda op: (S.T_SET_BAUDRATE, op["baudrate"], 0, 0, 0), effect=lambda core, op: core.baudrate == op["baudrate"]),
}


class SdpSession:
    def __init__(self, case: dict, fault=None, caps=None) -> None:
        env = _env()
        self.case = case
        self.t = case["t"]
        plan = M.FaultPlan(fault if fault and fault["kind"] != "write_fail" else None)
        fail_write_at = fault["n"] if fault and fault["kind"] == "write_fail" else None
        cap = caps[0] if caps else 1 << 30
        self.core = S.SdpCore(mem_seed=int(case.get("mem_seed", 0)), hab_closed=bool(case.get("hab_closed")), error_status=int(case.get("error_status", 0xF0F0F0F0)))
        if self.t == "sdp_uart":
            self.link = M.SerialLink(plan, cap, flush_on_write=bool(case.get("flush", True)))
            self.dev = S.SdpUartDevice(self.core, self.link)
            self.stub = env["SerialStub"](self.dev, self.link, fail_write_at)
            self.itf = env["SdpUARTInterface"](self.stub)
        else:
            self.link = M.HidLink(plan, cap)
            self.dev = S.SdpHidDevice(self.core, self.link, pad_ret=bool(case.get("pad", True)))
            self.stub = env["UsbStub"](self.dev, self.link, fail_write_at)
            self.itf = env["SdpUSBInterface"](self.stub)
        self.api = env["SDP"](self.itf, cmd_exception=bool(case.get("exc", False)))

    def fault_fired(self) -> bool:
        return self.link.plan.fired or (self.stub.fail_write_at is not None and self.stub.n_writes > self.stub.fail_write_at)

    def queue_len(self) -> int:
        return len(self.link.queue)

    def run_op(self, k: int, op: dict) -> Res:
        self.link.cur_op = k
        if op["op"] == "open":
            return _call(self.api.open)
        d = SDP_OPS[op["op"]]
        df = op.get("dev_fail")
        self.core.force = {"tag": d.tag, "status": df["status"]} if (df and d.ok_word is not None) else None
        res = _call(lambda: d.call(self.api, op))
        self.core.force = None
        return res


def sdp_pre(sess: SdpSession, op: dict) -> dict:
    pre = {"log": len(sess.core.log), "reads": sess.link.reads, "writes": sess.link.writes, "delivered": sess.link.bytes_delivered}
    if op["op"] != "open":
        d = SDP_OPS[op["op"]]
        if d.truth:
            pre["truth"] = d.truth(sess.core, op)
        if op["op"] == "write_file":
            pre["region"] = sess.core.mem.read(op["addr"], len(_data(op["data"])))
    return pre


def sdp_check_faultfree(o: Oracle, sess: SdpSession, k: int, op: dict, res: Res, pre: dict) -> None:
    env = _env()
    name = op["op"]
    core = sess.core
    where = "step %d %s" % (k, name)
    if res.budget:
        o.fail("faultfree", "read_budget", where)
        return
    if name == "open":
        if res.exc is not None:
            _fail_exc(o, "faultfree", "open", res.exc, where)
        return
    d = SDP_OPS[name]
    refused = bool(op.get("dev_fail")) and d.ok_word is not None
    exc_mode = bool(sess.case.get("exc"))
    if res.exc is not None:
        if refused and exc_mode and isinstance(res.exc, env["SdpCommandError"]):
            pass
        else:
            _fail_exc(o, "faultfree", name, res.exc, where)
    else:
        v = res.value
        if d.kind == "read":
            want = pre["truth"]
            o.check("read_data", v == want, "sdp_" + name, "%s: returned %s, device holds %s" % (where, _short(v), _short(want)))
        elif refused:
            o.check("mirror", v is False and not exc_mode, "sdp_return_value", "%s: device answered 0x%08x, call returned %r (cmd_exception %s)" % (where, op["dev_fail"]["status"], v, exc_mode))
            o.check("mirror", int(sess.api.status_code.tag) == d.fail_code, "sdp_status_code", "%s: status_code %r" % (where, sess.api.status_code))
        else:
            o.check("mirror", v is True, "sdp_return_value", "%s: returned %r" % (where, v))
        if not refused and name not in ("write_file", "write_dcd", "write_csf", "set_baudrate"):
            o.check("mirror", sess.api.hab_status == core.hab, "hab_status", "%s: hab_status 0x%x, device sent 0x%x" % (where, sess.api.hab_status, core.hab))
            want_code = SDP_HAB_LOCKED if core.hab != S.HAB_OPEN else 0
            o.check("mirror", int(sess.api.status_code.tag) == want_code, "sdp_status_code", "%s: status_code %r with HAB word 0x%x" % (where, sess.api.status_code, core.hab))
        if d.effect and not refused:
            o.check("write_data", d.effect(core, op), "sdp_" + name, "%s: the device does not hold what was written" % where)
    got = [e[1:] for e in core.log[pre["log"]:] if e[0] == "cmd"]
    o.check("commands", got == [d.cmd(op)], "sdp_" + name, "%s: device saw %r, protocol defines %r" % (where, got[:3], d.cmd(op)))
    if core.violations:
        o.fail("protocol", "violation", "%s: %s" % (where, "; ".join(core.violations[:3])))
        del core.violations[:]
    o.check("protocol", sess.queue_len() == 0, "unread_reply", "%s: %d units/bytes sent by the device were never read" % (where, sess.queue_len()))
    link = sess.link
    reads, delivered, writes = link.reads - pre["reads"], link.bytes_delivered - pre["delivered"], link.writes - pre["writes"]
    o.check("F2", reads <= delivered + writes + 4, "reads_faultfree", "%s: %d reads for %d bytes" % (where, reads, delivered))


def sdp_check_fault(o: Oracle, sess: SdpSession, k: int, op: dict, res: Res, pre: dict, ref: Res) -> str:
    env = _env()
    name = op["op"]
    where = "step %d %s fault %r" % (k, name, sess.link.plan.fault or sess.case.get("fault"))
    link = sess.link
    if res.budget:
        o.fail("F2", "read_budget", "%s: the call did not end within %d device reads" % (where, link.read_budget))
        return "budget"
    reads, delivered, writes = link.reads - pre["reads"], link.bytes_delivered - pre["delivered"], link.writes - pre["writes"]
    o.check("F2", reads <= delivered + writes + 16, "reads", "%s: %d reads, %d bytes delivered, %d writes" % (where, reads, delivered, writes))
    if res.exc is not None:
        if not isinstance(res.exc, (env["SPSDKError"], TimeoutError)):
            _fail_exc(o, "F3", "undocumented", res.exc, where)
        return "raised:" + type(res.exc).__name__
    if name == "open":
        return "returned"
    d = SDP_OPS[name]
    core = sess.core
    success = _positive(d.kind, res.value)
    if not success:
        return "failure_return"
    if d.kind == "read":
        o.check("F1", res.value == ref.value, "read:sdp_" + name, "%s: returned %s, the device holds %s" % (where, _short(res.value), _short(ref.value)))
    else:
        done = core.completed is True and (d.effect(core, op) if d.effect else True)
        o.check("F1", done, "write:sdp_" + name, "%s: True reported, device completed: %r" % (where, core.completed))
    if name == "write_file":
        data = _data(op["data"])
        o.check("F1", _is_prefix_write(pre["region"], core.mem.read(op["addr"], len(data)), data), "memory_not_prefix:sdp_write_file", where)
    return "success"


# ================================================================================================ SDPS
_SDPS_ROM: dict = {}


def _sdps_rom(family: str) -> tuple:
    """(no_cmd, pack_size) read straight from the device's database.yaml (not through spsdk.utils.database)."""
    if family not in _SDPS_ROM:
        import yaml

        with open(os.path.join(REPO, "spsdk", "data", "devices", family, "database.yaml"), encoding="utf-8") as f:
            db = yaml.safe_load(f)
        params = db["info"]["isp"]["rom"].get("protocol_params", {})
        _SDPS_ROM[family] = (bool(params.get("no_cmd", True)), int(params.get("hid_pack_size", 1020)))
    return _SDPS_ROM[family]


SDPS_FAMILIES = ["mimx8x", "mimx28", "mimx9352", "mimx8mn"]


def run_sdps(case: dict, o: Oracle) -> None:
    env = _env()
    family = case["family"]
    no_cmd, pack = _sdps_rom(family)
    fault = case.get("fault")
    o.label("t:sdps", "family:" + family)
    dev = S.SdpsHidDevice(no_cmd, pack)
    stub = env["UsbStub"](dev, M.HidLink(), fault["n"] if fault else None)
    with o.spsdk("faultfree", "sdps_setup"):
        api = env["SDPS"](env["SdpUSBInterface"](stub), family)
        api.open()
    if o.fails:
        return
    total = 0
    for k, op in enumerate(case["ops"]):
        data = _data(op["data"])
        dev.new_transfer()
        before = len(dev.received)
        n_rep = len(dev.reports)
        res = _call(lambda: api.write_file(data))
        where = "step %d write_file(%d bytes) family %s" % (k, len(data), family)
        fired = fault is not None and stub.n_writes > stub.fail_write_at
        if fired:
            o.label("fault:fired", "fault:write_fail")
            o.nontrivial(True)
            if res.exc is None:
                o.fail("F1", "write:sdps_write_file", "%s: the device write failed, the call returned normally" % where)
            elif not isinstance(res.exc, (env["SPSDKError"], TimeoutError)):
                _fail_exc(o, "F3", "undocumented", res.exc, where)
            got = bytes(dev.received[before:])
            o.check("F1", (data + bytes(len(got)))[: len(got)] == got, "received_not_prefix:sdps", where)
            o.label("outcome:" + ("raised" if res.exc else "returned"))
            break
        if res.exc is not None:
            _fail_exc(o, "faultfree", "sdps_write_file", res.exc, where)
            break
        got = bytes(dev.received[before:])
        padded = data + bytes(-len(data) % pack)
        o.check("write_data", got == padded, "sdps_write_file", "%s: device received %d bytes, first difference at %s" % (
            where, len(got), next((i for i, (a, b) in enumerate(zip(got, padded)) if a != b), None)))
        sizes = dev.reports[n_rep:]
        o.check("write_data", all(s == pack for s in sizes) and len(sizes) == (len(data) + pack - 1) // pack, "sdps_packets", "%s: report sizes %r, pack size %d" % (where, sizes[:5], pack))
        if not no_cmd:
            c = dev.command or {}
            want = {"signature": 0x43544C42, "tag": 1, "length": len(data), "flags": 0, "cdb_command": 2, "cdb_length": len(data)}
            o.check("commands", c == want, "sdps_command_block", "%s: command block %r, expected %r" % (where, c, want))
        if dev.violations:
            o.fail("protocol", "violation", "%s: %s" % (where, "; ".join(dev.violations[:3])))
            del dev.violations[:]
        total += len(data)
        if len(data) > pack:
            o.label("multipacket")
            o.nontrivial(True)
    if not fault:
        o.label("faultfree")
    o.key(("sdps", family, tuple(len(_data(op["data"])) % _sdps_rom(family)[1] for op in case["ops"]), bool(fault)))


# ================================================================================================ faults: where they apply
SERIAL_BYTE_KINDS = ("bitflip", "drop", "dup", "truncate")
FLOOD_TIMEOUT_MS = 20  # the link time-out of a session whose device floods "not ready" bytes (the link lets go after 10 s)
KINDS = {
    "mb_serial": SERIAL_BYTE_KINDS + ("notready", "nak", "abort", "errstatus", "wrongtag", "write_fail"),
    "mb_hid": ("zerolen", "missing", "short", "wrongid", "truncate", "abort", "errstatus", "wrongtag", "write_fail"),
    "sdp_uart": ("drop", "truncate", "bitflip", "errstatus", "write_fail"),
    "sdp_hid": ("missing", "short", "truncate", "wrongid", "errstatus", "write_fail"),
}


def _candidates(t: str, kind: str, units: list) -> list:
    """Ranges [lo, hi) of stream positions at which a fault of this kind is meaningful (see DESIGN: only what the layer can detect in principle)."""
    out = []
    for u in units:
        lo, n, role = u["start"], u["len"], u.get("role", "")
        one, full = (lo, lo + 1), (lo, lo + n)
        if t == "mb_serial":
            if kind in SERIAL_BYTE_KINDS:
                out.append(full)
            elif kind == "notready" and role not in ("dummy", "pingr"):  # frame-start positions of the framing protocol proper
                out.append(one)
            elif kind == "nak" and role in ("ack_cmd", "ack_data", "ack_image"):
                out.append(one)
            elif kind == "abort" and role in ("ack_data", "data_out"):
                out.append(one)
            elif kind in ("errstatus", "wrongtag") and role.startswith("resp_"):
                out.append(one)
        elif t == "mb_hid":
            if kind in ("zerolen", "missing", "wrongid", "truncate"):
                out.append(one)
            elif kind == "short":
                out.append(full)
            elif kind == "abort":
                if role == "data_out":
                    out.append(one)
                elif role == "resp_final" and u.get("phase") == "in" and u.get("packets", 0) > 0:
                    out.append((lo, lo + min(n, u["packets"])))
            elif kind in ("errstatus", "wrongtag") and role.startswith("resp_"):
                out.append(one)
        elif t == "sdp_uart":
            if kind in ("drop", "truncate"):
                out.append(full)
            elif kind == "bitflip" and role == "status" and u.get("checked"):
                out.append(full)
            elif kind == "errstatus" and role == "status" and u.get("checked"):
                out.append(one)
        elif t == "sdp_hid":
            if kind in ("missing", "wrongid", "truncate"):
                out.append(one)
            elif kind == "short":
                out.append(full)
            elif kind == "errstatus" and role == "status" and u.get("checked"):
                out.append(one)
    return out


def _resolve_fault(t: str, f: dict, units: list, writes: int):
    """Generated faults carry ranks (posr, subr); turn them into a concrete stream position."""
    if f["kind"] == "write_fail":
        if "n" in f:
            return dict(f)
        return {"kind": "write_fail", "n": f.get("posr", 0) % writes} if writes else None
    if "pos" in f:
        out = dict(f)
    else:
        c = _candidates(t, f["kind"], units)
        if not c:
            return None
        lo, hi = c[f.get("posr", 0) % len(c)]
        out = {k: v for k, v in f.items() if k not in ("posr", "subr")}
        out["pos"] = lo + f.get("subr", 0) % (hi - lo)
    return None if _forges_success(t, out, units) else out


def _forges_success(t: str, f: dict, units: list) -> bool:
    """A bit flip on the checksum-less SDP byte stream that turns a refusal word into the very word that means success
    (0x128A8A13 -> 0x128A8A12) is, bit for bit, the answer of a device that completed the command: no layer can detect it."""
    if t != "sdp_uart" or f["kind"] != "bitflip":
        return False
    for u in units:
        i = f["pos"] - u["start"]
        if 0 <= i < u["len"] and u.get("ok") is not None:
            return u["word"] ^ ((1 << (f.get("bit", 0) & 7)) << (8 * (u["len"] - 1 - i))) == u["ok"]
    return False


def _all_faults(t: str, units: list, writes: int) -> list:
    """Every (kind, position, variant) for a short history."""
    out = []
    for kind in KINDS[t]:
        if kind == "write_fail":
            out.extend({"kind": kind, "n": n} for n in range(writes))
            continue
        for lo, hi in _candidates(t, kind, units):
            for pos in range(lo, hi):
                if kind == "bitflip":
                    out.extend({"kind": kind, "pos": pos, "bit": b} for b in range(8))
                elif kind == "errstatus":
                    sts = (1, 10200) if t.startswith("mb") else (0x33221100, 0)
                    out.extend({"kind": kind, "pos": pos, "status": s} for s in sts)
                elif kind == "wrongtag":
                    out.extend([{"kind": kind, "pos": pos, "mode": "cmd"}, {"kind": kind, "pos": pos, "mode": "resp", "rtag": M.R_GENERIC},
                                {"kind": kind, "pos": pos, "mode": "resp", "rtag": M.R_GET_PROPERTY}])
                elif kind == "wrongid":
                    out.extend({"kind": kind, "pos": pos, "rid": r} for r in ((3, 4, 0x55) if t == "mb_hid" else (3, 4)))
                else:
                    out.append({"kind": kind, "pos": pos})
    return out


# ================================================================================================ running a history
def _hooks(t: str):
    if t.startswith("mb"):
        return MbSession, mb_pre, mb_check_faultfree, mb_check_fault
    return SdpSession, sdp_pre, sdp_check_faultfree, sdp_check_fault


_PASS1: dict = {}


def _pass1(case: dict, o: Oracle):
    """Fault-free run with all invariants; results are cached per history (deterministic) for the enumeration."""
    from vf.core import case_digest

    base = {k: v for k, v in case.items() if k != "fault"}
    key = case_digest(base)
    hit = _PASS1.get(key)
    if hit is not None:
        return hit
    Session, pre_fn, check_ff, _ = _hooks(case["t"])
    sess = Session(base)
    recs = []
    for k, op in enumerate(base["ops"]):
        pre = pre_fn(sess, op)
        res = sess.run_op(k, op)
        check_ff(o, sess, k, op, res, pre)
        recs.append(res)
        if o.fails:
            break
    out = {"recs": recs, "units": sess.link.units, "stream": sess.link.off, "writes": sess.link.writes, "reads": sess.link.reads, "ok": not o.fails}
    if out["ok"] and len(_PASS1) < 256:
        _PASS1[key] = out
    return out


def _op_labels(case: dict, o: Oracle) -> None:
    mps = case.get("mps", 0)
    multi = False
    for op in case["ops"]:
        o.label("op:" + op["op"])
        n = None
        if "data" in op:
            n = len(_data(op["data"]))
        elif "length" in op and op["op"] not in ("fill_memory", "flash_erase_region"):
            n = op["length"]
        if n is not None:
            unit = mps if case["t"].startswith("mb") else (1024 if "data" in op else 64)
            if n > unit:
                multi = True
            if n == 0:
                o.label("len:0")
            elif n % unit == 0:
                o.label("len:k*mps")
            elif n % unit == 1 and n > unit:
                o.label("len:k*mps+1")
            elif n % unit == unit - 1:
                o.label("len:k*mps-1")
            if n >= 16384:
                o.label("len:>=16KiB")
        if op.get("dev_fail"):
            o.label("device_error_status")
    if multi:
        o.label("multipacket")
        o.nontrivial(True)


def run_history(case: dict, o: Oracle) -> None:
    t = case["t"]
    if t == "sdps":
        run_sdps(case, o)
        return
    o.label("t:" + t, "exc:%s" % bool(case.get("exc")))
    if t.startswith("mb"):
        o.label("mps:%s" % (case["mps"] if case["mps"] in (32, 64, 256, 1016, 1024) else "other"))
    _op_labels(case, o)
    p1 = _pass1(case, o)
    names = tuple(sorted(op["op"] for op in case["ops"]))
    fault = case.get("fault")
    if not p1["ok"]:
        o.label("faultfree")
        return
    if not fault:
        o.label("faultfree")
        return
    rf = _resolve_fault(t, fault, p1["units"], p1["writes"])
    if rf is None:
        o.label("fault:inapplicable", "faultfree")
        return
    Session, pre_fn, _, check_fault = _hooks(t)
    caps = (8 * (p1["reads"] + p1["stream"]) + 2000, 0)
    sess = Session({k: v for k, v in case.items() if k != "fault"}, rf, caps)
    fired = False
    for k, op in enumerate(case["ops"]):
        pre = pre_fn(sess, op)
        res = sess.run_op(k, op)
        if sess.fault_fired() or res.budget:
            fired = True
            n_before = len(o.fails)
            outcome = check_fault(o, sess, k, op, res, pre, p1["recs"][k])
            role = (sess.link.plan.fired_unit or {}).get("role", "write")
            o.label("fault:fired", "fault:" + rf["kind"], "role:" + role, "outcome:" + outcome.split(":")[0], "faultop:" + op["op"])
            if outcome.startswith("raised:"):
                o.label("raised:" + outcome.split(":", 1)[1])
            o.nontrivial(True)
            o.key((t, names, rf["kind"], role, op["op"], outcome))
            if len(o.fails) > n_before:
                o.replay_case = dict({k2: v for k2, v in case.items() if k2 != "fault"}, fault=rf)
            break
        ref = p1["recs"][k]
        if (res.exc is None) != (ref.exc is None) or (res.exc is None and res.value != ref.value):
            o.fail("determinism", "unaffected_step_differs", "step %d %s before the fault point: %s / %s" % (k, op["op"], _short(res.value), _short(ref.value)))
            break
    if not fired:
        o.label("fault:not_fired")


# ================================================================================================ enumeration part
def _templates(tier: str) -> list:
    """Short histories whose whole reply stream is enumerated as fault positions."""
    D = lambda n, s, pat="rand": {"n": n, "s": s, "pat": pat}  # noqa: E731
    A = 0x20000000
    mb = [
        [{"op": "get_property", "tag": 1}],
        [{"op": "write_memory", "addr": A, "data": D(70, 1)}],
        [{"op": "read_memory", "addr": A, "length": 70}],
        [{"op": "write_memory", "addr": A + 3, "data": D(33, 2, "start")}, {"op": "read_memory", "addr": A + 3, "length": 33}],
        [{"op": "fill_memory", "addr": 0x100, "length": 16, "pattern": 0x5AA15AA3}, {"op": "read_memory", "addr": 0x100, "length": 16}],
        [{"op": "receive_sb_file", "data": D(40, 3)}],
        [{"op": "receive_sb_file", "data": D(65, 3), "check_errors": True}],
        [{"op": "efuse_program_once", "index": 3, "value": 0x5A, "verify": True}, {"op": "flash_read_once", "index": 3, "count": 8}],
        [{"op": "generate_key_blob", "data": D(16, 4), "count": 72}],
        [{"op": "load_image", "data": D(40, 5)}],
        [{"op": "reset", "reopen": True}, {"op": "get_property", "tag": 0x0B}],
        [{"op": "kp_set_user_key", "key_type": 3, "data": D(33, 6)}, {"op": "kp_enroll"}],
        [{"op": "set_property", "tag": 0x0A, "value": 0}, {"op": "get_property", "tag": 0x77}, {"op": "flash_erase_region", "addr": 0x1000, "length": 64}],
        [{"op": "read_memory", "addr": A, "length": 64, "dev_fail": {"stage": "final", "status": 10201}}],
        [{"op": "flash_read_resource", "addr": 0, "length": 36}, {"op": "fuse_read", "addr": 4, "length": 4}],
        [{"op": "get_property_list"}],
        [{"op": "get_memory_list"}],
    ]
    if tier != "quick":
        mb += [
            [{"op": "kp_read_key_store"}],
            [{"op": "write_memory", "addr": A, "data": D(257, 7, "zeros")}, {"op": "read_memory", "addr": A, "length": 257}],
            [{"op": "kp_write_key_store", "data": D(100, 8)}, {"op": "fuse_program", "addr": 0x10, "data": D(8, 9)}, {"op": "call", "addr": 4, "arg": 5}],
            [{"op": "read_memory", "addr": 0xFFFFFF00, "length": 256, "fast": True}],
        ]
    sdp = [
        [{"op": "read", "addr": A, "length": 100, "fmt": 32}],
        [{"op": "read", "addr": A, "length": 4, "fmt": 32, "safe": True}, {"op": "write", "addr": A, "value": 0x11223344, "fmt": 32, "safe": True}],
        [{"op": "write_file", "addr": 0x1000, "data": D(1500, 1)}],
        [{"op": "write_dcd", "addr": 0x1000, "data": D(30, 2)}, {"op": "write_csf", "addr": 0x2000, "data": D(30, 3)}],
        [{"op": "skip_dcd"}, {"op": "read_status"}, {"op": "jump_and_run", "addr": 0x1000}],
    ]
    out = []
    for ops in mb:
        for exc in (False, True):
            out.append({"t": "mb_serial", "mps": 32, "exc": exc, "flush": True, "ops": [{"op": "open"}] + ops})
            out.append({"t": "mb_hid", "mps": 32, "exc": exc, "pad": exc, "ops": [{"op": "open"}] + ops})
        if tier != "quick":
            out.append({"t": "mb_serial", "mps": 64, "exc": False, "flush": False, "ping_dummy": 3, "ops": [{"op": "open"}] + ops})
    for ops in sdp:
        for exc in (False, True):
            out.append({"t": "sdp_uart", "exc": exc, "flush": True, "ops": [{"op": "open"}] + ops})
            out.append({"t": "sdp_hid", "exc": exc, "pad": not exc, "hab_closed": exc, "ops": [{"op": "open"}] + ops})
    return out


_ENUM: dict = {}


def _enum_table(tier: str) -> list:
    """(template index, fault) for every enumerated fault; built once (in the parent, inherited by the workers)."""
    if tier in _ENUM:
        return _ENUM[tier]
    table = []
    tpls = _templates(tier)
    for ti, tpl in enumerate(tpls):
        o = Oracle()
        p1 = _pass1(tpl, o)
        if not p1["ok"]:
            table.append((ti, None))  # the fault-free failure is reported by that single item
            continue
        table.append((ti, None))
        table.extend((ti, f) for f in _all_faults(tpl["t"], p1["units"], p1["writes"]))
    _ENUM[tier] = table
    return table


def _enum_count(tier: str) -> int:
    return len(_enum_table(tier))


def _enum_item(tier: str, i: int):
    ti, f = _enum_table(tier)[i]
    case = dict(_templates(tier)[ti])
    if f is not None:
        case["fault"] = f
    return case


def run_enum(case: dict, o: Oracle) -> None:
    o.label("enumerated")
    run_history(case, o)


# ================================================================================================ strategies
_U32 = st.integers(0, 0xFFFFFFFF)
_PATS = st.sampled_from(["rand", "rand", "rand", "zeros", "ff", "start"])


def _blob(n):
    return st.fixed_dictionaries({"n": st.just(n), "s": st.integers(0, 1 << 20), "pat": _PATS})


@st.composite
def _length(draw, unit: int, tier: str, lo: int = 0, hard_max: int = 65536):
    big = draw(st.integers(0, 39)) == 0
    kmax = max(1, (hard_max if big else min(hard_max, 6 * unit if tier == "quick" else 24 * unit)) // unit)
    k = draw(st.integers(0, kmax))
    d = draw(st.sampled_from([0, 0, 1, -1, 1, -1, 2, unit // 2, unit // 3]))
    return max(lo, min(hard_max, k * unit + d))


@st.composite
def _addr(draw, n: int, align: int = 1):
    base = draw(st.sampled_from([0, 0x1000, 0x2000_0000, 0x2000_0000, 0x2000_0400, 0x6000_0000, 0xFFFF_0000]))
    a = draw(st.one_of(st.integers(0, 300).map(lambda x: base + x), _U32))
    a = min(a, (1 << 32) - n)
    return max(0, a - a % align)


_MEM_IDS = st.sampled_from([0, 0, 0, 1, 9, 0x100, 0x101])


@st.composite
def _mb_op(draw, mps: int, tier: str, hid: bool):
    name = draw(st.sampled_from([
        "write_memory", "write_memory", "write_memory", "read_memory", "read_memory", "read_memory", "fill_memory", "flash_erase_region", "flash_erase_all",
        "get_property", "get_property", "get_property_list", "get_memory_list", "set_property", "receive_sb_file", "receive_sb_file", "flash_program_once", "efuse_program_once", "flash_read_once",
        "efuse_read_once", "load_image", "configure_memory", "call", "execute", "reset", "kp_enroll", "kp_set_intrinsic_key", "kp_write_nonvolatile",
        "kp_read_nonvolatile", "kp_set_user_key", "kp_write_key_store", "kp_read_key_store", "generate_key_blob", "flash_read_resource",
        "flash_security_disable", "reliable_update", "update_life_cycle", "ele_message", "fuse_program", "fuse_read", "flash_erase_all_unsecure"]))
    op: dict = {"op": name}
    if name in ("write_memory", "fuse_program"):
        n = draw(_length(mps, tier))
        op.update(addr=draw(_addr(n)), data=draw(_blob(n)), mem_id=draw(_MEM_IDS))
    elif name in ("read_memory", "fuse_read"):
        n = draw(_length(mps, tier))
        op.update(addr=draw(_addr(n)), length=n, mem_id=draw(_MEM_IDS))
        if name == "read_memory":
            op["fast"] = draw(st.booleans())
    elif name == "fill_memory":
        n = 4 * draw(st.integers(0, 256))
        op.update(addr=draw(_addr(n, 4)), length=n, pattern=draw(st.one_of(_U32, st.sampled_from([0x5AA15AA3, 0, 0xFFFFFFFF]))))
    elif name == "flash_erase_region":
        n = draw(st.integers(0, 4096))
        op.update(addr=draw(_addr(n)), length=n, mem_id=draw(_MEM_IDS))
    elif name == "flash_erase_all":
        op.update(mem_id=draw(st.sampled_from([0, 1, 0x110])))
    elif name == "get_property":
        op.update(tag=draw(st.sampled_from([1, 2, 3, 4, 5, 7, 0x0A, 0x0B, 0x0C, 0x0E, 0x0F, 0x10, 0x11, 0x12, 0x18, 0x19, 0x77, 0xFE])), index=draw(st.sampled_from([0, 0, 1, 9])))
    elif name == "set_property":
        op.update(tag=draw(st.sampled_from([0x0A, 0x0A, 0x11, 0x18, 1, 0x0B, 0x77])), value=draw(_U32))
    elif name in ("receive_sb_file", "load_image", "kp_write_key_store"):
        n = draw(_length(mps, tier, lo=0 if name != "kp_write_key_store" else 1, hard_max=65536 if name != "kp_write_key_store" else 4096))
        op.update(data=draw(_blob(n)))
        if name == "receive_sb_file":
            op["check_errors"] = draw(st.booleans())
    elif name == "flash_program_once":
        op.update(index=draw(st.integers(0, 0xFF)), data=draw(_blob(draw(st.sampled_from([4, 8])))))
    elif name == "efuse_program_once":
        op.update(index=draw(st.one_of(st.integers(0, 0xFF), st.integers(0, 0xFF).map(lambda x: x | 0x01000000))), value=draw(_U32), verify=draw(st.booleans()))
    elif name == "flash_read_once":
        op.update(index=draw(st.integers(0, 0xFF)), count=draw(st.sampled_from([4, 8])))
    elif name == "efuse_read_once":
        op.update(index=draw(st.integers(0, 0xFF)))
    elif name == "configure_memory":
        op.update(addr=draw(_U32), mem_id=draw(st.sampled_from([0, 1, 9, 0x100, 0x120])))
    elif name == "call":
        op.update(addr=draw(_U32), arg=draw(_U32))
    elif name == "execute":
        op.update(addr=draw(_U32), arg=draw(_U32), sp=draw(_U32))
    elif name == "reset":
        op.update(reopen=True)
    elif name == "kp_set_intrinsic_key":
        op.update(key_type=draw(st.integers(0, 12)), key_size=draw(st.sampled_from([16, 32, 64])))
    elif name in ("kp_write_nonvolatile", "kp_read_nonvolatile"):
        op.update(mem_id=draw(st.sampled_from([0, 0, 9])))
    elif name == "kp_set_user_key":
        op.update(key_type=draw(st.sampled_from([2, 3, 7, 11, 12])), data=draw(_blob(draw(st.sampled_from([16, 32, 33, 64, mps, mps + 1])))))
    elif name == "generate_key_blob":
        op.update(data=draw(_blob(draw(st.sampled_from([16, 24, 32, mps + 1])))), key_sel=draw(st.sampled_from([0, 2, 3])), count=draw(st.sampled_from([72, 72, 96, 112, mps, mps + 1])))
    elif name == "flash_read_resource":
        n = 4 * draw(st.integers(0, 2 * mps // 4 + 1))
        op.update(addr=draw(st.integers(0, 0xFFFF)), length=n, option=draw(st.sampled_from([0, 1])))
    elif name == "flash_security_disable":
        op.update(data=draw(st.binary(min_size=8, max_size=8)))
    elif name == "reliable_update":
        op.update(addr=draw(_U32))
    elif name == "update_life_cycle":
        op.update(value=draw(st.integers(0, 0xFF)))
    elif name == "ele_message":
        op.update(a=draw(_U32), b=draw(st.integers(0, 64)), c=draw(_U32), d=draw(st.integers(0, 64)))
    if MB_OPS[name].tag and draw(st.integers(0, 7)) == 0:
        op["dev_fail"] = {"stage": draw(st.sampled_from(["initial", "final"])), "status": draw(st.sampled_from(ERR_STATUSES))}
    return op


def _fault(t: str):
    return st.fixed_dictionaries({
        "kind": st.sampled_from(KINDS[t]), "posr": st.integers(0, 1 << 16), "subr": st.integers(0, 1 << 16), "bit": st.integers(0, 7),
        "status": st.sampled_from(ERR_STATUSES if t.startswith("mb") else [0, 0x33221100, 0x12343412, 0x128A8A13]),
        "mode": st.sampled_from(["cmd", "resp"]), "rtag": st.sampled_from([M.R_GENERIC, M.R_GET_PROPERTY, M.R_READ_MEMORY, M.R_READ_ONCE, 0xEE]),
        "rid": st.sampled_from([1, 2, 3, 4, 0x55]), "delta": st.integers(0, 30)})


@st.composite
def _mb_case(draw, t: str, tier: str):
    hid = t == "mb_hid"
    mps = draw(st.one_of(st.sampled_from([32, 32, 64, 256, 1016 if hid else 1024]), st.integers(8, 255 if hid else 512).map(lambda x: 4 * x)))
    n = draw(st.integers(1, 8 if tier == "quick" else 20))
    case = {"t": t, "mps": mps, "exc": draw(st.booleans()), "mem_seed": draw(st.integers(0, 255)),
            "ops": [{"op": "open"}] + [draw(_mb_op(mps, tier, hid)) for _ in range(n)]}
    if hid:
        case["pad"] = draw(st.booleans())
    else:
        case["flush"] = draw(st.booleans())
        case["ping_dummy"] = draw(st.sampled_from([0, 0, 0, 1, 7]))
    case["fault"] = draw(st.one_of(st.none(), _fault(t), _fault(t)))
    return case


@st.composite
def _sdp_op(draw, t: str, tier: str):
    names = ["read", "read", "write", "write_file", "write_file", "write_dcd", "write_csf", "skip_dcd", "jump_and_run", "read_status"]
    if t == "sdp_uart":
        names.append("set_baudrate")
    name = draw(st.sampled_from(names))
    op: dict = {"op": name}
    if name == "read":
        fmt = draw(st.sampled_from([8, 16, 32]))
        n = draw(_length(64, tier, lo=1, hard_max=16384))
        op.update(fmt=fmt, length=n, addr=draw(_addr(n, fmt // 8)), safe=draw(st.booleans()))
    elif name == "write":
        fmt = draw(st.sampled_from([8, 16, 32]))
        safe = draw(st.booleans())
        op.update(fmt=fmt, addr=draw(_addr(4, fmt // 8)), value=draw(_U32), count=draw(st.integers(1, 4)) if safe else fmt // 8, safe=safe)
    elif name in ("write_file", "write_dcd", "write_csf"):
        n = draw(_length(1024, tier, lo=1, hard_max=65536 if name == "write_file" else 1768))
        op.update(addr=draw(_addr(n)), data=draw(_blob(n)))
    elif name == "jump_and_run":
        op.update(addr=draw(_U32))
    elif name == "set_baudrate":
        op.update(baudrate=draw(st.sampled_from([9600, 115200, 921600])))
    if SDP_OPS[name].ok_word is not None and draw(st.integers(0, 7)) == 0:
        op["dev_fail"] = {"status": draw(st.sampled_from([0, 0x33221100, 0x12343412, 0x128A8A13, 0xFFFFFFFF]))}
    return op


@st.composite
def _sdp_case(draw, t: str, tier: str):
    n = draw(st.integers(1, 6 if tier == "quick" else 16))
    case = {"t": t, "exc": draw(st.booleans()), "mem_seed": draw(st.integers(0, 255)), "hab_closed": draw(st.booleans()),
            "error_status": draw(st.sampled_from([0xF0F0F0F0, 0x33221100, 0, 0x56787856])),
            "ops": [{"op": "open"}] + [draw(_sdp_op(t, tier)) for _ in range(n)]}
    if t == "sdp_hid":
        case["pad"] = draw(st.booleans())
    else:
        case["flush"] = draw(st.booleans())
    case["fault"] = draw(st.one_of(st.none(), _fault(t), _fault(t)))
    return case


@st.composite
def _sdps_case(draw, tier: str):
    family = draw(st.sampled_from(SDPS_FAMILIES))
    ops = [{"data": draw(_blob(draw(_length(1024 if family in ("mimx8x", "mimx28") else 1020, tier, lo=1))))} for _ in range(draw(st.integers(1, 3)))]
    fault = draw(st.one_of(st.none(), st.none(), st.fixed_dictionaries({"kind": st.just("write_fail"), "n": st.integers(0, 6)})))
    return {"t": "sdps", "family": family, "ops": ops, "fault": fault}



# ------------------------------------------------------------------ properties are reported as the device sent them
_PROP_FAMILIES = [None, None, "kw45b41z8", "kw47b42zb7", "mcxa156", "mcxa276", "lpc55s69", "mimxrt1176", "mcxn947", "k32w148"]


def _prop_case():
    dec = st.fixed_dictionaries({
        "tag": st.one_of(st.integers(1, 0x26), st.integers(0, 0xFF)),
        "words": st.lists(st.one_of(st.sampled_from([0, 1, 2, 0x400, 0xFFFFFFFF, 0x4B030100]), st.integers(0, 0xFFFFFFFF)), min_size=1, max_size=4),
        "family": st.sampled_from(_PROP_FAMILIES), "mem": st.sampled_from([None, 0, 1, 9, 0x100]),
    })
    return st.fixed_dictionaries({"decodes": st.lists(dec, min_size=2, max_size=8)})


def _decode(d) -> tuple:
    from spsdk.mboot.properties import parse_property_value

    try:
        obj = parse_property_value(d["tag"], list(d["words"]), d["mem"], d["family"])
    except Exception as exc:  # noqa: BLE001 - the words are arbitrary; what is compared is that the answer does not depend on the history
        return ("raises", type(exc).__name__)
    if obj is None:
        return ("none",)
    try:
        text = obj.to_str()
    except Exception as exc:  # noqa: BLE001
        text = "to_str raises " + type(exc).__name__
    num = None
    if hasattr(obj, "to_int"):
        try:
            num = obj.to_int()
        except Exception as exc:  # noqa: BLE001
            num = "to_int raises " + type(exc).__name__
    return (type(obj).__name__, obj.name, text, num)


_PROP_BASE: dict = {}


def _prop_baseline() -> None:
    """(value class, name) of every (tag, family), taken in the parent process before any worker exists: all generic decodes
    first, then family by family.  On a tree where decoding leaves no trace this is simply the decode table; where it does
    leave one, the generic entries are still those of an unused interpreter and the workers (which inherit the parent's
    state) disagree with them."""
    table = {}
    for fam in sorted(set(_PROP_FAMILIES), key=lambda f: (f is not None, f or "")):
        for tag in range(0x100):
            table[(tag, fam)] = _decode({"tag": tag, "words": [1, 2, 3, 4], "family": fam, "mem": 0})[:2]
    _PROP_BASE["table"] = table


def run_properties(case, o: Oracle) -> None:
    """A property word decodes to the same value object whatever was decoded before (for another device family, another
    memory, another tag), and plain integer properties carry the word itself."""
    decs = case["decodes"]
    first = []
    with o.spsdk("properties", "decode"):
        for d in decs:
            first.append(_decode(d))
        again = [_decode(d) for d in decs]
    if len(first) != len(decs):
        return
    fams = {d["family"] for d in decs}
    o.label("t:properties", "prop_families:%d" % len(fams))
    if len(fams) > 1 and None in fams:
        o.label("prop_family_and_generic")
    o.nontrivial(len(fams) > 1)
    o.sample({"decodes": [[d["tag"], d["family"], first[i][0]] for i, d in enumerate(decs)][:4]})
    base = _PROP_BASE.get("table") or {}
    for i, d in enumerate(decs):
        want = base.get((d["tag"], d["family"]))
        if want is not None and first[i][0] not in ("raises", "none") and want[0] not in ("raises", "none"):
            # value class and name of a (tag, family) as decoded before anything else was (generic decodes first): see _prop_baseline
            o.check("properties", first[i][:2] == want, "depends_on_earlier_decodes",
                    "tag 0x%02x family %s: decoded as %r, in an unused interpreter as %r" % (d["tag"], d["family"], first[i][:2], want))
        o.check("properties", first[i] == again[i], "depends_on_history",
                "tag 0x%02x words %s family %s: decoded as %r, after the other decodes of this history as %r" % (d["tag"], d["words"], d["family"], first[i], again[i]))
        if first[i][0] == "IntValue":
            o.check("properties", first[i][3] == d["words"][0], "int_value", "tag 0x%02x word 0x%x decoded to %r" % (d["tag"], d["words"][0], first[i][3]))

def parts(ctx):
    tier = ctx.tier
    _prop_baseline()
    return [
        EnumPart("fault_enum", _enum_count, _enum_item, run_enum),
        HypPart("mb_serial", _mb_case("mb_serial", tier), run_history, {"quick": 1400, "thorough": 60000}),
        HypPart("mb_hid", _mb_case("mb_hid", tier), run_history, {"quick": 1400, "thorough": 60000}),
        HypPart("sdp_uart", _sdp_case("sdp_uart", tier), run_history, {"quick": 700, "thorough": 30000}),
        HypPart("sdp_hid", _sdp_case("sdp_hid", tier), run_history, {"quick": 700, "thorough": 30000}),
        HypPart("sdps", _sdps_case(tier), run_history, {"quick": 200, "thorough": 8000}),
        HypPart("properties", _prop_case(), run_properties, {"quick": 600, "thorough": 20000}, max_shards=4),
    ]
