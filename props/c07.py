"""C07 - HAB image: layout round trip, CSF authenticates its blocks, encryption inverts (DESIGN.md section 4, C07)."""
from __future__ import annotations

import base64
import copy
import functools
import gzip
import hashlib
import itertools
import json
import os
import shutil

from hypothesis import strategies as st

from vf import cli, pins
from vf.core import VERIF_DIR, HarnessError, HypPart, Oracle, case_digest, reorder
from vf.gen import dbenum
from vf.gen import keys as K
from vf.ref import hab_check as H
from vf.ref import x509util

ID = "C07"
LEVEL = "exploration"
TECHNIQUE = (
    "Hypothesis-generated HAB configurations (device table x flags x PKI x DCD/XMCD x CSF command set) built through "
    "HabContainer.load_from_config; the exported bytes are walked by an independent HAB4 image/CSF interpreter (own SRK-table "
    "codec, asn1crypto CMS/X.509 parsing, own RSA/ECDSA verification, own AES-CCM) calibrated on CST-produced goldens; about one case "
    "in six also through the real `nxpimage hab export` / `nxpimage hab parse` commands with the same walker / interpreter on their files"
)
LEVEL_TEXT = (
    "exploration: every generated image is (1) located by an independent IVT/boot-data/DCD/XMCD/CSF walker and compared with the "
    "inputs, (2) parsed back with HabContainer.parse and compared segment by segment with the exported bytes, (3) run through a CSF "
    "interpreter that installs the SRK, follows the certificates, verifies both CMS signatures over exactly the bytes the commands "
    "name and decrypts with AES-CCM; a pass means no disagreement on the generated configurations, not a proof for all of them"
)
RULE = (
    "cases are (family + boot device from the database, or one of the explicit ivtOffset/initialLoadSize pairs used by the upstream "
    "examples; start address; flags 0/8/0xC; application 64 B..256 KiB as BIN or S19 with a valid Cortex-M reset vector; optional "
    "DCD or XMCD; SRK tree of 1..4 RSA-2048/3072/4096 or P-256/384/521 keys with every source index, CSF/IMG leaf certificates or "
    "the no-CA (fast authentication) variant; CSF version 4.0..4.5; engines; Set Engine / Unlock; DEK 128/192/256 given or random, "
    "nonce given or random, MAC 4..16). non-trivial = authenticated or encrypted; distinct by (target, flags, key type, number of "
    "SRKs, source index, DCD/XMCD presence, application size class)"
)
ASSUMPTIONS = [
    "the walker's reading of the HAB4 layout is calibrated on CST/elftosb-produced artifacts shipped as upstream test data (three signed/encrypted images incl. P-521 and AES-CCM with the stored DEK, srktool tables with their fuse files); a shared misreading of a field the goldens do not exercise would go unnoticed",
    "asn1crypto is trusted for ASN.1 parsing of CMS and X.509 (spsdk uses it to *build* the CMS, verification here is own code on Python ints)",
    "implicit precondition of HabContainer.parse: the application starts with a Cortex-M vector table whose reset vector is odd and lies inside the image; explicit ivtOffset/initialLoadSize are restricted to the pairs whose application offset the parser knows (0x100, 0x400, 0xC00, 0x1000, 0x2000)",
    "the application returned by parse is compared modulo the fill between the application end and the CSF (parse returns everything up to the CSF)",
    "the DEK blob itself is produced on the device and is not part of the image; decryption uses the DEK file SPSDK read or wrote",
    "certificates and the SRK table are input material built with `cryptography` / spsdk's SrkTable; the table is additionally compared with an own encoder",
]
FLOORS = {"cli": 0.03, "flags:8": 0.08, "flags:c": 0.04, "flags:0": 0.012, "kt:rsa": 0.06, "kt:ec": 0.04, "dcd": 0.032, "xmcd": 0.006, "mode:family": 0.1,
          "nocak": 0.006, "dek:random": 0.004, "nonce:given": 0.008, "app:unaligned": 0.08}

FIX = os.path.join(VERIF_DIR, "fixtures", "c07")
EXPLICIT_PAIRS = [(0x0, 0x100), (0x0, 0x400), (0x0, 0x2000), (0x400, 0x1000), (0x1000, 0x2000)]
ENGINES = ["ANY", "SAHARA", "RTIC", "DCP", "CAAM", "SW"]
UNLOCK_FEATURES = {
    "SNVS": {"LP SWR": 1, "ZMK WRITE": 2},
    "CAAM": {"MID": 1, "RNG": 2, "MFG": 4},
    "OCOTP": {"FIELD RETURN": 1, "SRK REVOKE": 2, "SCS": 4, "JTAG": 8},
}


# ------------------------------------------------------------------------------------------------ domain
@functools.lru_cache(maxsize=None)
def _targets() -> tuple:
    """(family, boot device, ivt offset, initial load size, has_xmcd) read from the device database YAML (own walk)."""
    db = dbenum.load()
    out = []
    for name in db.devices_with("hab"):
        feats = db.devices[name].features()
        boot = (feats.get("bootable_image") or {}).get("mem_types") or {}
        for dev, rec in (feats["hab"].get("mem_types") or {}).items():
            ivt = ((boot.get(dev) or {}).get("segments") or {}).get("hab_container")
            if ivt is None:
                continue
            out.append((name, dev, int(ivt), int(rec["initial_load_size"]), "xmcd" in feats))
    if len(out) < 20:
        raise HarnessError("device database lists only %d HAB (family, boot device) pairs" % len(out))
    return tuple(out)


def _stretch(seed: bytes, n: int) -> bytes:
    out = bytearray()
    c = 0
    while len(out) < n:
        out += hashlib.sha256(seed + c.to_bytes(4, "big")).digest()
        c += 1
    return bytes(out[:n])


def _rsa_pki():
    """SRK set of one RSA size, leaves of a (possibly different) size; pool indices never collide inside a tree."""

    @st.composite
    def build(draw):
        srk_bits = draw(st.sampled_from([2048, 2048, 2048, 3072, 4096]))
        n = draw(st.integers(1, 4))
        srk = [{"t": "rsa", "bits": srk_bits, "i": i} for i in range(n)]
        if srk_bits == 2048:
            leaf_bits = draw(st.sampled_from([2048, 2048, 2048, 3072, 4096]))
        else:
            leaf_bits = draw(st.sampled_from([2048, 2048] + ([srk_bits] if n <= 2 else [])))
        base = 4 if leaf_bits == 2048 else (2 if leaf_bits == srk_bits else 0)
        a = draw(st.integers(0, 1))
        return {"srk": srk, "csf": {"t": "rsa", "bits": leaf_bits, "i": base + a}, "img": {"t": "rsa", "bits": leaf_bits, "i": base + 1 - a}}

    return build()


def _ec_pki():
    @st.composite
    def build(draw):
        curves = ["secp256r1", "secp384r1", "secp521r1"]
        c_srk = draw(st.sampled_from(curves))
        n = draw(st.integers(1, 4))
        srk = [draw(K.ec_key_desc((c_srk,))) for _ in range(n)]
        c_leaf = draw(st.sampled_from([c_srk, c_srk] + curves))
        return {"srk": srk, "csf": draw(K.ec_key_desc((c_leaf,))), "img": draw(K.ec_key_desc((c_leaf,)))}

    return build()


def _pki():
    @st.composite
    def build(draw):
        p = draw(st.one_of(_rsa_pki(), _ec_pki()))
        p["src"] = draw(st.integers(0, len(p["srk"]) - 1))
        p["nocak"] = draw(st.sampled_from([False] * 6 + [True]))
        p["enc"] = draw(st.sampled_from(["pem", "pem", "der"]))
        p["keyref"] = draw(st.sampled_from(["file", "file", "provider", "autodetect"]))
        return p

    return build()


def _dcd_cmds():
    addr = st.integers(0, 0xFFFFFFFF).map(lambda a: a & ~3)
    val = st.integers(0, 0xFFFFFFFF)
    write = st.fixed_dictionaries({"c": st.just("write"), "bytes": st.sampled_from([1, 2, 4]), "op": st.integers(0, 3),
                                   "pairs": st.lists(st.tuples(addr, val), min_size=1, max_size=6)})
    check = st.fixed_dictionaries({"c": st.just("check"), "bytes": st.sampled_from([1, 2, 4]), "op": st.integers(0, 3), "addr": addr, "mask": val,
                                   "count": st.one_of(st.none(), st.integers(1, 0xFFFFFFFF), st.sampled_from([1, 0xFFFFFFFF]))})
    nop = st.just({"c": "nop"})
    return st.lists(st.one_of(write, write, check, nop), min_size=1, max_size=12)


def _case(thorough: bool = False):
    @st.composite
    def build(draw):
        mode = draw(st.sampled_from(["family", "family", "explicit"]))
        if mode == "family":
            t = draw(st.sampled_from(_targets()))
            target = {"mode": "family", "family": t[0], "dev": t[1]}
            ivt, ils, has_xmcd = t[2], t[3], t[4]
        else:
            ivt, ils = draw(st.sampled_from(EXPLICIT_PAIRS))
            target = {"mode": "explicit", "ivt": ivt, "ils": ils}
            has_xmcd = draw(st.booleans())
        flags = draw(st.sampled_from([0, 8, 8, 8, 0xC, 0xC]))
        size = draw(st.one_of(
            st.integers(64, 4096), st.integers(64, 4096), st.integers(4096, 70000),
            st.sampled_from([64, 1024, 4096, 0xDFF0, 0xE000, 0xEFF1, 0xFFF0, 0x10000, 0x10010, 0x20000, 0x40000]),
            *([st.integers(70000, 0x40000)] if thorough else []),
        ))
        # start address: anywhere in 32 bits with room for the image, 1 KiB aligned (memories the devices map)
        room = ils + size + 0x1000 + 0x2000 + 0x200 + 0x1000
        start = draw(st.one_of(
            st.sampled_from([0x1000, 0x2000, 0x20000000, 0x20200000, 0x2024FC00, 0x30000000, 0x60000000, 0x80000000, 0x80001000]),
            st.integers(1, (0xFFFFFFFF - room) >> 10).map(lambda v: v << 10),
        ))
        app = {"size": size, "seed": draw(st.binary(min_size=8, max_size=8)), "entry_off": draw(st.integers(8, size - 1)),
               "fmt": draw(st.sampled_from(["bin"] * 5 + ["s19"])), "sp": draw(st.integers(0, 0xFFFFFFFF))}
        case = {"target": target, "flags": flags, "start": start, "app": app,
                "entry_given": draw(st.sampled_from([False, False, True])), "ts": draw(st.sampled_from([None, "04/05/2023 14:41:11", "29/02/2024 23:59:59"]))}
        space = ils - ivt - 0x40
        extra = draw(st.sampled_from(["none", "none", "dcd", "dcd", "xmcd" if has_xmcd else "none"]))
        case["dcd"] = None
        case["xmcd"] = None
        if extra == "dcd" and space >= 16:
            cmds = draw(_dcd_cmds())
            while cmds and len(H.encode_dcd(cmds)) > min(space, 1768):
                cmds = cmds[:-1]
            case["dcd"] = cmds or [{"c": "nop"}]
            case["dcd_ver"] = draw(st.sampled_from([0x41, 0x41, 0x40, 0x43]))
        elif extra == "xmcd":
            cfg_len = draw(st.sampled_from([4, 8, 12, 24, 140, 512]))
            if 4 + cfg_len <= space:
                case["xmcd"] = {"interface": draw(st.integers(0, 1)), "instance": draw(st.sampled_from([0, 0, 1, 1, 2])),
                                "type": draw(st.integers(0, 1)), "cfg": draw(st.binary(min_size=cfg_len, max_size=cfg_len))}
        if flags:
            case["pki"] = draw(_pki())
            eng = draw(st.sampled_from(ENGINES))
            case["csf"] = {
                "ver": draw(st.sampled_from(["4.0", "4.1", "4.2", "4.2", "4.3", "4.4", "4.5", 0x42])),
                "engine": eng, "engine_cfg": 0 if eng == "ANY" else draw(st.sampled_from([0, 0, 1, 8, 0x11])),
                "data_engine": draw(st.sampled_from(ENGINES)), "data_cfg_pick": draw(st.sampled_from([0, 0, 1, 8, 0x11])),
                "img_slot": draw(st.sampled_from([2, 2, 4])),
                "set_engine": draw(st.one_of(st.none(), st.sampled_from(ENGINES).flatmap(
                    lambda e: st.fixed_dictionaries({"engine": st.just(e), "cfg": st.sampled_from([0, "0"] if e == "ANY" else [0, 0, 1, "0", 8])})))),
                "unlock": draw(st.one_of(st.none(), st.sampled_from(sorted(UNLOCK_FEATURES)).flatmap(
                    lambda e: st.fixed_dictionaries({"engine": st.just(e), "features": st.lists(st.sampled_from(sorted(UNLOCK_FEATURES[e])), unique=True, max_size=3),
                                                     "uid": st.lists(st.integers(0, 255), min_size=8, max_size=8)})))),
                "minimal": draw(st.booleans()),
            }
        if flags == 0xC:
            total = (size + 15) // 16 * 16
            max_nonce = 13 if total < 0x10000 else 12
            case["enc"] = {
                "bits": draw(st.sampled_from([128, 128, 192, 256])), "reuse": draw(st.booleans()),
                "dek_seed": draw(st.binary(min_size=4, max_size=4)),
                "nonce": draw(st.one_of(st.none(), st.integers(11, max_nonce).flatmap(lambda n: st.binary(min_size=n, max_size=n)))),
                "mac": draw(st.sampled_from([None, 16, 16, 4, 6, 8, 10, 12, 14, "8"])),
                "kek": draw(st.sampled_from([0, 0, 2, 3])), "slot": draw(st.sampled_from([0, 0, 1, 2])),
                "engine": draw(st.sampled_from([None, "ANY", "CAAM"])),
            }
        return case

    return build()


# ------------------------------------------------------------------------------------------------ materialisation
@functools.lru_cache(maxsize=48)
def _pki_material(desc_json: str) -> dict:
    """Certificates (DER) and keys for a PKI description. SRK certificates are CA certificates, leaves are not;
    in the no-CA variant the SRKs are plain user certificates (what the CST's hab4_pki_tree produces with CA = n)."""
    d = json.loads(desc_json)
    srk_keys = [K.key_from_desc(k) for k in d["srk"]]
    nocak = d["nocak"]
    srk_certs = [K.make_cert(k, subject_cn="SRK%d" % (i + 1), ca=not nocak, serial=0x100 + i) for i, k in enumerate(srk_keys)]
    out = {"srk_der": [K.cert_der(c) for c in srk_certs], "srk_keys": srk_keys}
    if not nocak:
        root = srk_keys[d["src"]]
        cn = "SRK%d" % (d["src"] + 1)
        csf_key, img_key = K.key_from_desc(d["csf"]), K.key_from_desc(d["img"])
        out["csf_der"] = K.cert_der(K.make_cert(csf_key, root, subject_cn="CSF%d_1" % (d["src"] + 1), issuer_cn=cn, ca=False, serial=0x200))
        out["img_der"] = K.cert_der(K.make_cert(img_key, root, subject_cn="IMG%d_1" % (d["src"] + 1), issuer_cn=cn, ca=False, serial=0x201))
        out["csf_key"], out["img_key"] = csf_key, img_key
    return out


def _s19(data: bytes, address: int, entry: int) -> bytes:
    def rec(kind: int, addr_bytes: bytes, payload: bytes) -> str:
        body = bytes([len(addr_bytes) + len(payload) + 1]) + addr_bytes + payload
        return "S%d%s%02X" % (kind, body.hex().upper(), (~sum(body)) & 0xFF)

    lines = [rec(0, b"\0\0", b"c07app")]
    for i in range(0, len(data), 32):
        lines.append(rec(3, (address + i).to_bytes(4, "big"), data[i : i + 32]))
    lines.append(rec(7, entry.to_bytes(4, "big"), b""))
    return ("\n".join(lines) + "\n").encode()


def _pem(der: bytes) -> bytes:
    b64 = base64.b64encode(der).decode()
    return ("-----BEGIN CERTIFICATE-----\n" + "\n".join(b64[i : i + 64] for i in range(0, len(b64), 64)) + "\n-----END CERTIFICATE-----\n").encode()


def _key_type(desc: dict) -> str:
    return "rsa%d" % desc["bits"] if desc["t"] == "rsa" else {"secp256r1": "p256", "secp384r1": "p384", "secp521r1": "p521"}[desc["curve"]]


def _geometry(case) -> tuple[int, int]:
    t = case["target"]
    if t["mode"] == "explicit":
        return int(t["ivt"]), int(t["ils"])
    for fam, dev, ivt, ils, _x in _targets():
        if fam == t["family"] and dev == t["dev"]:
            return ivt, ils
    raise HarnessError("unknown target %r" % (t,))


class _Built:
    pass


def _materialise(case, wd: str) -> _Built:
    """Write every input file below wd and return the configuration (flat YAML form) plus the expected values."""
    b = _Built()
    ivt, ils = _geometry(case)
    b.ivt_offset, b.ils = ivt, ils
    b.start = int(case["start"])
    a = case["app"]
    n = int(a["size"])
    body = bytearray(_stretch(bytes(a["seed"]), n))
    b.reset = ((b.start + ils + int(a["entry_off"])) | 1) & 0xFFFFFFFF
    body[0:4] = int(a["sp"]).to_bytes(4, "little")
    body[4:8] = b.reset.to_bytes(4, "little")
    b.app = bytes(body)
    os.makedirs(os.path.join(wd, "crts"), exist_ok=True)
    os.makedirs(os.path.join(wd, "keys"), exist_ok=True)
    if a["fmt"] == "s19":
        b.app_file = "app.s19"
        with open(os.path.join(wd, b.app_file), "wb") as f:
            f.write(_s19(b.app, b.start + ils, b.reset))
    else:
        b.app_file = "app.bin"
        with open(os.path.join(wd, b.app_file), "wb") as f:
            f.write(b.app)
    flags = int(case["flags"])
    opts: dict = {"flags": flags, "startAddress": b.start}
    if case["target"]["mode"] == "family":
        opts["family"] = case["target"]["family"]
        opts["bootDevice"] = case["target"]["dev"]
    else:
        opts["ivtOffset"] = ivt
        opts["initialLoadSize"] = ils
    if case["entry_given"]:
        opts["entryPointAddress"] = b.reset
    if case.get("ts") and flags:
        opts["signatureTimestamp"] = case["ts"]
    b.dcd = b.xmcd = None
    if case.get("dcd"):
        cmds = [dict(c, pairs=[tuple(p) for p in c["pairs"]]) if c["c"] == "write" else dict(c) for c in case["dcd"]]
        b.dcd = H.encode_dcd(cmds, int(case.get("dcd_ver", 0x41)))
        with open(os.path.join(wd, "dcd.bin"), "wb") as f:
            f.write(b.dcd)
        opts["DCDFilePath"] = "dcd.bin"
    if case.get("xmcd"):
        x = case["xmcd"]
        cfg = bytes(x["cfg"])
        b.xmcd = H.encode_xmcd_header(int(x["interface"]), int(x["instance"]), int(x["type"]), 4 + len(cfg)) + cfg
        with open(os.path.join(wd, "xmcd.bin"), "wb") as f:
            f.write(b.xmcd)
        opts["XMCDFilePath"] = "xmcd.bin"
    b.cfg = {"inputImageFile": b.app_file, "options": opts, "sections": []}
    b.family = opts.get("family")
    b.dek = b.dek_file = None
    if not flags:
        return b
    # ---------------- PKI files
    p = case["pki"]
    desc = {k: p[k] for k in ("srk", "csf", "img", "src", "nocak")}
    mat = _pki_material(json.dumps(desc, sort_keys=True))
    b.mat = mat
    ext = p["enc"]

    def put_cert(name: str, der: bytes) -> str:
        rel = "crts/%s_crt.%s" % (name, ext)
        data = der if ext == "der" else _pem(der)
        with open(os.path.join(wd, rel), "wb") as f:
            f.write(data)
        return rel

    def put_key(name: str, key) -> str:
        rel = "keys/%s_key.%s" % (name, ext)
        with open(os.path.join(wd, rel), "wb") as f:
            f.write(K.private_der(key) if ext == "der" else K.private_pem(key))
        return rel

    def keyref(prefix: str, rel: str) -> dict:
        if p["keyref"] == "file":
            return {prefix + "_PrivateKeyFile": rel}
        if p["keyref"] == "provider":
            return {prefix + "_SignProvider": "type=file;file_path=%s" % rel}
        return {}  # determined from the certificate path (crts/X_crt.ext -> keys/X_key.ext)

    c = case["csf"]
    ver = c["ver"]
    header = {"Header_Version": ver, "Header_Engine": c["engine"], "Header_EngineConfiguration": c["engine_cfg"]}
    if not c["minimal"]:
        header.update({"Header_HashAlgorithm": "sha256", "Header_CertificateFormat": "x509", "Header_SignatureFormat": "CMS"})
    sections: list = [{"Header": header}, {"InstallSRK": {"InstallSRK_Table": "srk_table.bin", "InstallSRK_SourceIndex": int(p["src"])}}]
    data_cfg = 0 if c["data_engine"] == "ANY" else c["data_cfg_pick"]
    if p["nocak"]:
        i = int(p["src"])
        crt = put_cert("SRK%d" % (i + 1), mat["srk_der"][i])
        key = put_key("SRK%d" % (i + 1), mat["srk_keys"][i])
        nocak = {"InstallNOCAK_File": crt}
        if not c["minimal"]:
            nocak["InstallNOCAK_CertificateFormat"] = "x509"
        sections.append({"InstallNOCAK": nocak})
        sections.append({"AuthenticateCSF": keyref("AuthenticateCsf", key)})
        sections.append({"AuthenticateData": dict({"AuthenticateData_VerificationIndex": 0, "AuthenticateData_Engine": c["data_engine"],
                                                   "AuthenticateData_EngineConfiguration": data_cfg}, **keyref("AuthenticateData", key))})
        b.img_slot = 0
    else:
        csf_crt, csf_key = put_cert("CSF1_1", mat["csf_der"]), put_key("CSF1_1", mat["csf_key"])
        img_crt, img_key = put_cert("IMG1_1", mat["img_der"]), put_key("IMG1_1", mat["img_key"])
        inst = {"InstallCSFK_File": csf_crt}
        if not c["minimal"]:
            inst["InstallCSFK_CertificateFormat"] = "x509"
        sections.append({"InstallCSFK": inst})
        sections.append({"AuthenticateCSF": keyref("AuthenticateCsf", csf_key)})
        slot = int(c["img_slot"])
        sections.append({"InstallKey": {"InstallKey_File": img_crt, "InstallKey_VerificationIndex": 0, "InstallKey_TargetIndex": slot}})
        sections.append({"AuthenticateData": dict({"AuthenticateData_VerificationIndex": slot, "AuthenticateData_Engine": c["data_engine"],
                                                   "AuthenticateData_EngineConfiguration": data_cfg}, **keyref("AuthenticateData", img_key))})
        b.img_slot = slot
    if flags == 0xC:
        e = case["enc"]
        klen = int(e["bits"]) // 8
        sk = {"SecretKey_Name": "dek.bin", "SecretKey_VerifyIndex": int(e["kek"]), "SecretKey_TargetIndex": int(e["slot"])}
        if int(e["bits"]) != 128 or e["kek"]:
            sk["SecretKey_Length"] = int(e["bits"])  # 128 is the documented default
        if e["reuse"]:
            b.dek = _stretch(b"dek" + bytes(e["dek_seed"]), klen)
            with open(os.path.join(wd, "dek.bin"), "wb") as f:
                f.write(b.dek)
            sk["SecretKey_ReuseDek"] = True
        b.dek_file = os.path.join(wd, "dek.bin")
        sections.append({"SecretKey": sk})
        dec: dict = {"Decrypt_VerifyIndex": int(e["slot"])}
        if e["engine"]:
            dec["Decrypt_Engine"] = e["engine"]
            dec["Decrypt_EngineConfiguration"] = 0
        if e["mac"] is not None:
            dec["Decrypt_MacBytes"] = e["mac"]
        if e["nonce"] is not None:
            with open(os.path.join(wd, "nonce.bin"), "wb") as f:
                f.write(bytes(e["nonce"]))
            dec["Decrypt_Nonce"] = "nonce.bin"
        sections.append({"Decrypt": dec})
    if c["set_engine"]:
        sections.append({"SetEngine": {"SetEngine_HashAlgorithm": "sha256", "SetEngine_Engine": c["set_engine"]["engine"],
                                       "SetEngine_EngineConfiguration": c["set_engine"]["cfg"]}})
    if c["unlock"]:
        u = {"Unlock_Engine": c["unlock"]["engine"]}
        feats = list(c["unlock"]["features"])
        if feats:
            u["Unlock_Features"] = ", ".join(feats)
        if c["unlock"]["engine"] == "OCOTP" and any(UNLOCK_FEATURES["OCOTP"][f] & 0b1101 for f in feats):
            u["Unlock_UID"] = ", ".join("0x%x" % v for v in c["unlock"]["uid"])
        sections.append({"Unlock": u})
    b.cfg["sections"] = sections
    return b


# ------------------------------------------------------------------------------------------------ the check
_PROBLEM_SUB = {"cert_": "chain", "auth_csf": "auth_csf", "auth_data": "auth_data", "order": "auth_data", "block_range": "auth_data",
                "decrypt": "decrypt", "mac_": "decrypt", "blob_": "decrypt"}


def _sub_of(kind: str) -> str:
    for pre, sub in _PROBLEM_SUB.items():
        if kind.startswith(pre):
            return sub
    return "csf"


_COUNTER = itertools.count()
_NVALID = itertools.count()
_VALIDATORS: dict = {}


def _validate(cfg: dict, family) -> None:
    """Validate against the schemas HabContainer publishes for the family (what check_config does: merge + fastjsonschema);
    the compiled validator is cached per family because compiling costs more than building the image."""
    v = _VALIDATORS.get(family)
    if v is None:
        import fastjsonschema
        from deepmerge import always_merger
        from spsdk.image.hab.hab_container import HabContainer

        schema: dict = {}
        for sch in HabContainer.get_validation_schemas(family=family):
            always_merger.merge(schema, copy.deepcopy(sch))
        v = _VALIDATORS[family] = fastjsonschema.compile(schema, formats={"file_name": lambda x: os.path.basename(x.replace("\\", "/")) not in ("", None)})
    v(copy.deepcopy(cfg))


def _run(work: str, case, o: Oracle) -> None:
    # one directory per worker, emptied for every case: the same file names come back with other keys and data
    wd = os.path.join(work, "case-%d" % os.getpid())
    shutil.rmtree(wd, ignore_errors=True)
    os.makedirs(wd, exist_ok=True)
    try:
        state: dict = {}
        _run_in(wd, case, o, state)
        if state.get("data") is not None and cli.selected(case, CLI_ONE_IN):
            _cli_commands(wd, case, o, state)
    finally:
        shutil.rmtree(wd, ignore_errors=True)


def _run_in(wd: str, case, o: Oracle, state: dict) -> None:
    from spsdk.image.hab.hab_container import HabContainer
    from spsdk.image.hab.segments import HabSegment
    from spsdk.utils.schema_validator import check_config

    b = _materialise(case, wd)
    b.cfg = reorder(b.cfg, int(case_digest(case)[:8], 16))  # the keys of every mapping in an order picked with the case
    if cli.selected(case, CLI_ONE_IN):
        import yaml

        # the configuration as the user's file, taken before the library calls below get to see (and edit) the dictionary
        state["yaml"] = yaml.safe_dump(b.cfg, sort_keys=False)
    flags = int(case["flags"])
    n = len(b.app)
    padded = b.app + bytes(-n % 16) if flags else b.app
    app_off = b.ils - b.ivt_offset

    # ---- labels
    t = case["target"]
    o.label("mode:" + t["mode"], "flags:%x" % flags, "fmt:" + case["app"]["fmt"])
    o.label("dev:" + t["dev"] if t["mode"] == "family" else "geom:%x/%x" % (b.ivt_offset, b.ils))
    size_class = "tiny" if n < 1024 else "small" if n < 16384 else "mid" if n < 0x10000 else "large"
    o.label("app:" + size_class)
    if n % 16:
        o.label("app:unaligned")
    if b.dcd:
        o.label("dcd")
    if b.xmcd:
        o.label("xmcd", "xmcd_instance:%d" % int(case["xmcd"]["instance"]))
    if case["entry_given"]:
        o.label("entry:given")
    kt = "none"
    if flags:
        p = case["pki"]
        kt = _key_type(p["srk"][0])
        o.label("kt:" + p["srk"][0]["t"], "srk:" + kt, "leaf:" + _key_type(p["csf"]), "nsrk:%d" % len(p["srk"]), "src:%d" % int(p["src"]),
                "ver:%s" % case["csf"]["ver"], "keyref:" + p["keyref"], "certenc:" + p["enc"])
        if p["nocak"]:
            o.label("nocak")
        if any(K.has_leading_zero(k) for k in p["srk"]):
            o.label("srk_leading_zero")
        if case["csf"]["set_engine"]:
            o.label("set_engine")
        if case["csf"]["unlock"]:
            o.label("unlock:" + case["csf"]["unlock"]["engine"])
    if flags == 0xC:
        e = case["enc"]
        o.label("dek:%d" % int(e["bits"]), "dek:" + ("given" if e["reuse"] else "random"), "nonce:" + ("given" if e["nonce"] is not None else "random"),
                "mac:%s" % (e["mac"] if e["mac"] is not None else "default"))
    o.nontrivial(bool(flags))
    o.key((json.dumps(t, sort_keys=True), flags, kt, len(case["pki"]["srk"]) if flags else 0, int(case["pki"]["src"]) if flags else 0,
           bool(b.dcd), bool(b.xmcd), size_class))
    o.sample({"target": t, "flags": flags, "start": b.start, "app_size": n, "key": kt, "dcd": bool(b.dcd), "xmcd": bool(b.xmcd)})

    # ---- SRK table: spsdk's encoder is input material, compared with the own encoder
    own_table = own_fuses = None
    if flags:
        from spsdk.crypto.certificate import Certificate
        from spsdk.image.secret import SrkItem, SrkTable

        certs = [x509util.Cert(der) for der in b.mat["srk_der"]]
        own_table = H.encode_srk_table([H.encode_srk_entry(c.key, c.key_cert_sign) for c in certs])
        own_fuses = H.srk_fuse_hash(H.parse_srk_table(own_table))
        table_bytes = own_table
        with o.spsdk("srk_table", "build"):
            tab = SrkTable(version=0x40)
            for der in b.mat["srk_der"]:
                tab.append(SrkItem.from_certificate(Certificate.parse(der)))
            table_bytes = tab.export()
            o.eq("srk_table", "table_bytes", table_bytes, own_table)
            o.eq("srk_table", "fuses", tab.export_fuses(), own_fuses)
            o.eq("srk_table", "parse_export", SrkTable.parse(table_bytes).export(), table_bytes)
            for i in range(8):
                o.eq("srk_table", "get_fuse", tab.get_fuse(i), int.from_bytes(own_fuses[4 * i : 4 * i + 4], "little"))
        if b.family:
            with o.spsdk("srk_table", "rot"):
                from spsdk.utils.crypto.rot import Rot

                o.eq("srk_table", "rot_hash", Rot(b.family, "latest", list(b.mat["srk_der"])).calculate_hash(), own_fuses)
        with open(os.path.join(wd, "srk_table.bin"), "wb") as f:
            f.write(table_bytes)

    # ---- build
    data = None
    hab = None
    with o.spsdk("build"):
        if next(_NVALID) % 16 == 0:
            check_config(b.cfg, HabContainer.get_validation_schemas(family=b.family), search_paths=[wd])  # the documented entry point
        else:
            _validate(b.cfg, b.family)
        bd = HabContainer.transform_bd_configuration(b.cfg)
        hab = HabContainer.load_from_config(bd, search_paths=[wd])
        data = hab.export()
    if data is None:
        return
    data = bytes(data)
    if flags == 0xC:
        try:
            with open(b.dek_file, "rb") as f:
                dek = f.read()
        except OSError:
            dek = None
        if not case["enc"]["reuse"]:
            o.check("decrypt", dek is not None and len(dek) == int(case["enc"]["bits"]) // 8, "dek_file", "generated DEK file: %r" % (None if dek is None else len(dek)))
        b.dek = dek

    # ---- layout (independent walker against the inputs)
    L = _layout(o, case, b, data)
    state.update(b=b, data=data, padded=padded, app_off=app_off, own_table=own_table, own_fuses=own_fuses)

    # ---- round trip through HabContainer.parse
    with o.spsdk("roundtrip", "parse"):
        p2 = HabContainer.parse(data)
        o.eq("roundtrip", "flags", p2.flags, flags)
        o.eq("roundtrip", "start_address", p2.start_address, b.start)
        o.eq("roundtrip", "ivt_offset", p2.ivt_offset, b.ivt_offset)
        want_present = {"ivt": True, "bdt": True, "dcd": bool(b.dcd), "xmcd": bool(b.xmcd), "csf": bool(flags), "app": True}
        for seg in HabSegment:
            o.eq("roundtrip", "present:" + seg.label, p2.get_segment(seg) is not None, want_present[seg.label])
            s1, s2 = hab.get_segment(seg), p2.get_segment(seg)
            if s1 is not None and s2 is not None:
                o.eq("roundtrip", "offset:" + seg.label, s2.offset, s1.offset)
                if seg.label != "app":
                    o.eq("roundtrip", "segment:" + seg.label, s2.export(), s1.export())
        iv = p2.ivt_segment.segment
        o.eq("roundtrip", "ivt_bytes", p2.ivt_segment.export(), data[:0x20])
        if L is not None:
            o.eq("roundtrip", "ivt_fields", (iv.app_address, iv.dcd_address, iv.bdt_address, iv.ivt_address, iv.csf_address),
                 (L.entry, L.dcd_ptr, L.boot_data_ptr, L.self_ptr, L.csf_ptr))
            bs = p2.bdt_segment.segment
            o.eq("roundtrip", "bdt_fields", (bs.app_start, bs.app_length, bs.plugin), (L.bdt_start, L.bdt_length, L.bdt_plugin))
        if b.dcd and p2.dcd_segment is not None:
            o.eq("roundtrip", "dcd_bytes", p2.dcd_segment.export(), b.dcd)
        if b.xmcd and p2.xmcd_segment is not None:
            o.eq("roundtrip", "xmcd_bytes", p2.xmcd_segment.export(), b.xmcd)
        app2 = p2.app_segment
        o.eq("roundtrip", "app_offset", app2.offset, app_off)
        stored = data[app_off : app_off + len(padded)]
        got = bytes(app2.export())
        o.check("roundtrip", got[: len(stored)] == stored and got == data[app_off : app_off + len(got)], "app_bytes",
                "application of the parsed container: %d bytes, differs from the stored %d bytes (modulo the fill up to the CSF)" % (len(got), len(stored)))
        if flags and p2.csf_segment is not None and L is not None and L.csf_off is not None:
            o.eq("roundtrip", "csf_bytes", p2.csf_segment.export(), data[L.csf_off : L.csf_off + H.CSF_SPACE])

    # ---- the same object exported once more is an equally good image
    data2 = None
    with o.spsdk("export_again"):
        data2 = bytes(hab.export())
    if data2 is not None:
        if not flags:
            o.check("export_again", data2 == data, "bytes", "second export of the same (unsigned) container differs")
        else:
            o.eq("export_again", "length", len(data2), len(data))
            try:
                L2 = H.Layout(data2)
                dek2 = b.dek
                if flags == 0xC:
                    try:
                        with open(b.dek_file, "rb") as f:
                            dek2 = f.read()
                    except OSError:
                        pass
                r2 = H.run_csf(L2, dek2) if L2.csf_off is not None else None
                if r2 is None:
                    o.fail("export_again", "no_csf", "second export carries no CSF")
                else:
                    o.check("export_again", r2.csf_authenticated, "csf_not_authenticated", "second export: %s" % [d for k, d in r2.problems][:3])
                    o.check("export_again", len(r2.data_auth) == 1 and r2.data_auth[0]["ok"], "data_not_authenticated", "second export: %s" % [(x["ok"], x["why"]) for x in r2.data_auth])
                    if flags == 0xC:
                        o.check("export_again", len(r2.decrypt) == 1 and r2.decrypt[0]["ok"] and r2.decrypt[0]["plain"] == padded, "decrypt",
                                "second export does not decrypt to the application: %s" % [(x["ok"], x["why"]) for x in r2.decrypt])
                    else:
                        o.eq("export_again", "app_bytes", data2[app_off : app_off + len(padded)], padded)
            except H.HabFormatError as exc:
                o.fail("export_again", "format", str(exc))

    if not flags or L is None or L.csf_off is None:
        return

    # ---- CSF interpretation
    _csf(o, case, b, L, data, b.dek, own_table, own_fuses, hab)


# ------------------------------------------------------------------------------------------------ the real commands
CLI_ONE_IN = 8  # share of the cases that also go through `nxpimage hab export` / `nxpimage hab parse` (pure function of the case;
# the command loads every private key from its file again, which costs more than the rest of a case)


def _cli_commands(wd: str, case, o: Oracle, state: dict) -> None:
    """The configuration as a YAML file next to its input files, built by `nxpimage hab export -c <yaml> -o <file>`: the file is
    judged by the same walker and CSF interpreter as the library-built image (with the DEK file the command left behind);
    `nxpimage hab parse -b <file> -o <dir>` writes one file per segment holding the bytes of the image."""
    b, data, padded, app_off = state["b"], state["data"], state["padded"], state["app_off"]
    flags = int(case["flags"])
    cfg_path = os.path.join(wd, "hab_cli.yaml")
    with open(cfg_path, "w", encoding="utf-8") as f:
        f.write(state["yaml"])
    out = os.path.join(wd, "out_cli.bin")
    cwd = os.path.join(wd, "cwd")
    res = cli.run(o, "hab_export", ["hab", "export", "-c", cfg_path, "-o", out], cwd=cwd)
    if res is None:
        return
    cdata = cli.read(o, "hab_export", out)
    if cdata is None:
        return
    co = cli.Scoped(o, "hab_export")
    co.check("command", "Success." in res.output, "no_success_message", res.describe())
    co.eq("twin", "length", len(cdata), len(data))
    if not flags:
        co.check("twin", cdata == data, "bytes", "unsigned image: the command's file differs from the image of the same calls made directly")
    dek = b.dek
    if flags == 0xC:
        try:
            with open(b.dek_file, "rb") as f:
                dek = f.read()
        except OSError:
            dek = None
        if not case["enc"]["reuse"]:
            co.check("decrypt", dek is not None and len(dek) == int(case["enc"]["bits"]) // 8, "dek_file", "DEK file after the command: %r" % (None if dek is None else len(dek)))
        else:
            co.check("decrypt", dek == b.dek, "given_dek_file_changed", "the DEK file that was to be reused has been rewritten")
    L = _layout(co, case, b, cdata)
    if flags and L is not None and L.csf_off is not None:
        _csf(co, case, b, L, cdata, dek, state["own_table"], state["own_fuses"], None)

    # ---- nxpimage hab parse
    pdir = os.path.join(wd, "parsed_cli")
    res = cli.run(o, "hab_parse", ["hab", "parse", "-b", out, "-o", pdir], cwd=cwd)
    if res is None:
        return
    cp = cli.Scoped(o, "hab_parse")
    cp.check("command", "Success." in res.output, "no_success_message", res.describe())
    want_present = {"ivt": True, "bdt": True, "dcd": bool(b.dcd), "xmcd": bool(b.xmcd), "csf": bool(flags), "app": True}
    have = set(os.listdir(pdir)) if os.path.isdir(pdir) else set()
    for label, present in want_present.items():
        cp.eq("files", "present:" + label, (label + ".bin") in have, present)
    seg: dict = {}
    for label in want_present:
        if (label + ".bin") in have:
            seg[label] = cli.read(o, "hab_parse", os.path.join(pdir, label + ".bin"))
    if seg.get("ivt") is not None:
        cp.eq("files", "ivt_bytes", seg["ivt"], cdata[:0x20])
    if seg.get("bdt") is not None:
        cp.check("files", len(seg["bdt"]) >= 12 and seg["bdt"][:12] == cdata[0x20:0x2C] and not any(seg["bdt"][12:]), "bdt_bytes",
                 "bdt.bin %s, image %s" % (seg["bdt"].hex(), cdata[0x20:0x2C].hex()))
    if b.dcd and seg.get("dcd") is not None:
        cp.eq("files", "dcd_bytes", seg["dcd"], b.dcd)
    if b.xmcd and seg.get("xmcd") is not None:
        cp.eq("files", "xmcd_bytes", seg["xmcd"], b.xmcd)
    if seg.get("app") is not None:
        stored = cdata[app_off : app_off + len(padded)]
        got = seg["app"]
        cp.check("files", got[: len(stored)] == stored and got == cdata[app_off : app_off + len(got)], "app_bytes",
                 "app.bin: %d bytes, differs from the stored %d bytes (modulo the fill up to the CSF)" % (len(got), len(stored)))
        if flags == 8 or not flags:
            cp.check("files", got[: len(b.app)] == b.app, "app_is_input", "app.bin does not start with the application that was given")
    if flags and seg.get("csf") is not None and L is not None and L.csf_off is not None:
        cp.eq("files", "csf_bytes", seg["csf"], cdata[L.csf_off : L.csf_off + H.CSF_SPACE])


def _layout(o, case, b, data: bytes):
    """Layout: the independent walker against the inputs. Returns the Layout (None: not a HAB image)."""
    flags = int(case["flags"])
    n = len(b.app)
    padded = b.app + bytes(-n % 16) if flags else b.app
    app_off = b.ils - b.ivt_offset
    L = None
    try:
        L = H.Layout(data)
    except H.HabFormatError as exc:
        o.fail("layout", "format", str(exc))
    if L is not None:
        o.eq("layout", "ivt_self", L.self_ptr, b.start + b.ivt_offset)
        o.eq("layout", "ivt_boot_data", L.boot_data_ptr, L.self_ptr + 0x20)
        o.eq("layout", "ivt_entry", L.entry, b.reset)
        o.eq("layout", "bdt_start", L.bdt_start, b.start)
        o.eq("layout", "bdt_plugin", L.bdt_plugin, 0)
        if b.dcd:
            o.eq("layout", "ivt_dcd", L.dcd_ptr, L.self_ptr + 0x40)
            o.eq("layout", "dcd_bytes", L.dcd_bytes, b.dcd)
        else:
            o.eq("layout", "ivt_dcd", L.dcd_ptr, 0)
        if b.xmcd:
            o.eq("layout", "xmcd_bytes", data[0x40 : 0x40 + len(b.xmcd)], b.xmcd)
        if not flags:
            o.eq("layout", "ivt_csf", L.csf_ptr, 0)
            o.eq("layout", "app_bytes", data[app_off:], b.app)
            o.eq("layout", "bdt_length", L.bdt_length, b.ivt_offset + len(data))
        else:
            o.check("layout", L.csf_off is not None, "ivt_csf", "authenticated image without CSF pointer")
            if L.csf_off is not None:
                o.check("layout", L.csf_off >= app_off + len(padded), "csf_overlaps_app", "CSF at %#x, application ends at %#x" % (L.csf_off, app_off + len(padded)))
                o.check("layout", len(data) > L.csf_off, "csf_outside", "CSF pointer %#x beyond the image end %#x" % (L.csf_off, len(data)))
                o.eq("layout", "bdt_length", L.bdt_length, b.ivt_offset + len(data) + (H.KEYBLOB_SPACE if flags == 0xC else 0))
            if flags == 8:
                o.eq("layout", "app_bytes", data[app_off : app_off + len(padded)], padded)
            else:
                o.check("layout", data[app_off : app_off + len(padded)] != padded, "app_not_encrypted", "application stored in plain text")
    return L


def _csf(o, case, b, L, data: bytes, dek, own_table, own_fuses, hab) -> None:
    """CSF interpretation of an authenticated image: SRK table and fuse value, installed keys, both signatures, coverage of
    the authenticated blocks, AES-CCM decryption.  `hab` is the container object the image came from (None for a file)."""
    flags = int(case["flags"])
    n = len(b.app)
    padded = b.app + bytes(-n % 16) if flags else b.app
    app_off = b.ils - b.ivt_offset
    r = H.run_csf(L, dek)
    seen = set()
    for kind, detail in r.problems:
        sub = _sub_of(kind)
        if (sub, kind) not in seen:
            seen.add((sub, kind))
            o.fail(sub, kind, detail)
    csf = getattr(r, "csf", None)
    if csf is None:
        return
    # SRK table and fuse value
    if r.srk_table is not None:
        o.eq("srk_hash", "table_in_image", r.srk_table["raw"], own_table)
        o.eq("srk_hash", "fuse_value", r.fuse_hash, own_fuses)
        o.eq("srk_hash", "source_index", r.srk_index, int(case["pki"]["src"]))
        if hab is not None:
            with o.spsdk("srk_hash", "reported"):
                ins = [c for c in hab.csf_segment.segment.commands if getattr(c, "certificate_ref", None) is not None and hasattr(c.certificate_ref, "export_fuses")]
                o.eq("srk_hash", "spsdk_reported_fuses", ins[0].certificate_ref.export_fuses() if ins else None, r.fuse_hash)
        src_cert = x509util.Cert(b.mat["srk_der"][int(case["pki"]["src"])])
        o.check("srk_hash", r.keys.get(0, {}).get("key") == src_cert.key, "installed_srk", "slot 0 does not hold SRK %d" % int(case["pki"]["src"]))
    else:
        o.fail("srk_hash", "no_srk_table", "no Install SRK command was executed")
    # keys
    if not case["pki"]["nocak"]:
        o.check("chain", r.keys.get(1, {}).get("cert") is not None and r.keys[1]["cert"].der == b.mat["csf_der"], "csfk_cert", "slot 1 does not hold the configured CSF certificate")
        o.check("chain", r.keys.get(b.img_slot, {}).get("cert") is not None and r.keys[b.img_slot]["cert"].der == b.mat["img_der"], "imgk_cert",
                "slot %d does not hold the configured IMG certificate" % b.img_slot)
    o.check("auth_csf", r.csf_authenticated, "not_authenticated", "the CSF signature did not verify: %s" % [d for k, d in r.problems if k.startswith("auth_csf")])
    o.check("auth_data", len(r.data_auth) == 1 and r.data_auth[0]["ok"], "not_authenticated", "image data signatures: %s" % [(x["key"], x["ok"], x["why"]) for x in r.data_auth])
    if r.data_auth:
        o.eq("auth_data", "key_slot", r.data_auth[0]["key"], b.img_slot)
    # coverage: what must be authenticated (signed, or MACed when encrypted)
    blocks = [blk for x in r.data_auth if x["ok"] for blk in x["blocks"]]
    blocks += [blk for x in r.decrypt if x["ok"] for blk in x["blocks"]]
    need = [("ivt_bdt", L.self_ptr, L.self_ptr + 0x20 + 12), ("app", L.self_ptr + app_off, L.self_ptr + app_off + n)]
    if b.dcd:
        need.append(("dcd", L.self_ptr + 0x40, L.self_ptr + 0x40 + len(b.dcd)))
    if b.xmcd:
        need.append(("xmcd", L.self_ptr + 0x40, L.self_ptr + 0x40 + len(b.xmcd)))
    for name, lo, hi in need:
        o.check("coverage", H.covered(blocks, lo, hi), name, "[%#x,%#x) is not covered by the authenticated blocks %s" % (lo, hi, [(hex(a), hex(s)) for a, s in blocks]))
    for a, s in blocks:
        o.check("coverage", L.self_ptr <= a and a + s <= L.self_ptr + L.csf_off, "block_outside", "block (%#x,%#x) reaches outside [IVT, CSF)" % (a, s))
    # encryption
    if flags == 0xC:
        e = case["enc"]
        o.check("decrypt", len(r.decrypt) == 1 and r.decrypt[0]["ok"], "mac", "Decrypt Data: %s" % [(x["ok"], x["why"]) for x in r.decrypt])
        if r.decrypt:
            d = r.decrypt[0]
            if d["ok"]:
                o.eq("decrypt", "plaintext", d["plain"], padded)
                o.eq("decrypt", "memory", bytes(r.memory[app_off : app_off + len(padded)]), padded)
            want_mac = 16 if e["mac"] is None else int(e["mac"])
            o.eq("decrypt", "mac_length", len(d["mac"]), want_mac)
            if e["nonce"] is not None:
                o.eq("decrypt", "nonce", d["nonce"], bytes(e["nonce"]))
            o.eq("decrypt", "key_slot", d["key_slot"], int(e["slot"]))
            o.eq("decrypt", "blocks", d["blocks"], [(L.self_ptr + app_off, len(padded))])
        sk = r.secret_keys.get(int(e["slot"]))
        o.check("decrypt", sk is not None, "secret_key", "Install Secret Key for slot %d missing" % int(e["slot"]))
        if sk is not None:
            o.eq("decrypt", "kek", sk["kek"], int(e["kek"]))
            o.eq("decrypt", "blob_address", sk["address"], L.bdt_start + L.bdt_length - H.KEYBLOB_SPACE)
            o.eq("decrypt", "blob_after_image", sk["address"], L.self_ptr + len(data))


# ------------------------------------------------------------------------------------------------ calibration
def _read(name: str) -> bytes:
    p = os.path.join(FIX, name)
    if name.endswith(".gz"):
        with gzip.open(p, "rb") as f:
            return f.read()
    with open(p, "rb") as f:
        return f.read()


def calibrate(ctx) -> None:
    """The walker must accept the CST/elftosb-produced goldens and reject single-byte corruptions of them."""
    from asn1crypto import pem

    def fail(msg: str) -> None:
        raise HarnessError("C07 calibration: " + msg)

    # SRK tables written by the CST srktool, with their fuse files
    tab = H.parse_srk_table(_read("SRK_1_2_3_4_table.bin"))
    if H.srk_fuse_hash(tab) != _read("SRK_1_2_3_4_fuse.bin"):
        fail("fuse hash of SRK_1_2_3_4_table.bin")
    ents = []
    for i in range(1, 5):
        c = x509util.Cert(pem.unarmor(_read("SRK%d_sha256_4096_65537_v3_ca_crt.pem" % i))[2])
        ents.append(H.encode_srk_entry(c.key, c.key_cert_sign))
    if H.encode_srk_table(ents) != tab["raw"]:
        fail("own SRK table encoder differs from the srktool output")
    if H.srk_fuse_hash(H.parse_srk_table(_read("SRK_1_2_H3_H4_table.bin"))) != _read("SRK_1_2_3_4_fuse.bin"):
        fail("fuse hash of the table with hash-only entries")
    ect = H.parse_srk_table(_read("SRK_prime256v1_table.bin"))
    if H.srk_fuse_hash(ect) != _read("SRK_prime256v1_fuse.bin") or any(H.encode_srk_entry(e["key"], e["ca"]) != e["raw"] for e in ect["entries"]):
        fail("EC SRK table")
    # images
    for name, dek_name, n_blocks in (("rt1050_xip_authenticated.bin", None, 2), ("rt1165_semcnand_encrypted.bin", "rt1165_semcnand_encrypted.dek.bin", 2),
                                     ("rt1173_flashloader_authenticated_ecc.bin.gz", None, 2)):
        data = _read(name)
        dek = _read(dek_name) if dek_name else None
        L = H.Layout(data)
        r = H.run_csf(L, dek)
        if r.problems or not r.csf_authenticated or len(r.data_auth) != 1 or not r.data_auth[0]["ok"] or len(r.data_auth[0]["blocks"]) != n_blocks:
            fail("%s not accepted: %s" % (name, r.problems))
        if L.bdt_length != L.ivt_offset + len(data) + (H.KEYBLOB_SPACE if dek else 0) or len(data) != L.csf_off + H.CSF_SPACE:
            fail("%s: boot data length model" % name)
        if dek:
            d = r.decrypt[0]
            rv = int.from_bytes(d["plain"][4:8], "little")
            if not d["ok"] or rv != L.entry or not rv & 1:
                fail("%s: decryption with the stored DEK" % name)
            if H.run_csf(L, bytes(len(dek))).decrypt[0]["ok"]:
                fail("%s: wrong DEK accepted" % name)
            from vf.ref import aes as raes

            ct = b"".join(data[L.off(a_) : L.off(a_) + s_] for a_, s_ in d["blocks"])
            if len(ct) <= 2048 or raes.ccm_decrypt(dek, d["nonce"], ct + d["mac"], b"", len(d["mac"]), fast=True) != d["plain"]:
                fail("%s: the two AES-CCM paths disagree" % name)
            if H.ccm_decrypt(dek, d["nonce"], ct[:1024], raes.ccm_encrypt(dek, d["nonce"], d["plain"][:1024], b"", 8)[-8:]) != d["plain"][:1024]:
                fail("%s: short AES-CCM path" % name)
        # corruptions: application byte, CSF command byte, signature byte
        a0, s0 = (r.decrypt[0]["blocks"] if dek else r.data_auth[0]["blocks"])[-1]
        for off, expect in ((L.off(a0) + s0 // 2, "decrypt" if dek else "auth_data"), (L.csf_off + 9, "auth_csf"), (4, "auth_data")):
            bad = bytearray(data)
            bad[off] ^= 0x10
            try:
                rb = H.run_csf(H.Layout(bytes(bad)), dek)
                kinds = {k for k, _ in rb.problems}
            except H.HabFormatError:
                kinds = {expect}
            if not any(k.startswith(expect) for k in kinds):
                fail("%s: flipped byte at %#x not detected (%s)" % (name, off, sorted(kinds)))
    L = H.Layout(_read("rt1160_xip_unsigned.bin"))
    if L.csf_ptr or L.dcd_ptr or L.ivt_offset != 0x1000 or L.bdt_length != 0x1000 + len(L.data):
        fail("unsigned golden layout")
    dcd = H.Layout(_read("rt1165_semcnand_encrypted.bin")).dcd_bytes
    if H.encode_dcd(H.parse_dcd(dcd)) != dcd:
        fail("DCD codec does not reproduce the golden DCD")


def parts(ctx):
    run = functools.partial(_run, ctx.work)
    cli.preload()
    return [HypPart("image", _case(ctx.tier == "thorough"), run, {"quick": 480, "thorough": 16000}),
            pins.part(["hab"], 30)]  # initial load sizes per boot memory
