"""C17 - secrets SPSDK invents are fresh for every artifact (DESIGN.md section 4, C17)."""
from __future__ import annotations

import json
import os
import subprocess
import sys

from hypothesis import strategies as st

from vf.core import REPO, EnumPart, HypPart, Oracle

ID = "C17"
LEVEL = "exploration"
TECHNIQUE = "Hypothesis-generated construction histories (interleavings of artifact constructions without supplied secrets) with a pairwise-distinctness invariant, plus the same history in several fresh interpreters"
LEVEL_TEXT = (
    "exploration over histories: every generated interleaving of SB2.0/2.1, encrypted-MBI, OTFAD, IEE, BEE and HAB-nonce constructions that "
    "leave the secret to SPSDK is executed in one interpreter and every self-chosen value is recorded (object attributes and, for SB2, the "
    "values recovered from the exported file by the independent loader model); all values of one kind must be pairwise distinct and no "
    "(AES-CTR key, nonce) pair may repeat; a fleet of fresh interpreters repeats a short history and is compared across processes"
)
RULE = (
    "case = list of 2..10 construction ops drawn from 20 op kinds; non-trivial = at least two artifacts of the same kind in the history; "
    "distinct by the op-kind sequence. Chance collisions have probability <= 2^-60 for the sizes involved (>= 8 random bytes per value)"
)
ASSUMPTIONS = [
    "secrets.token_bytes is a sound entropy source; only reuse caused by SPSDK's own code (defaults evaluated once, cached values) can make two values equal",
    "HAB DEK generation needs a full HAB configuration and is covered through CsfHabSegment.generate_nonce here and through C07's encrypted builds",
]
FLOORS = {"repeat_kind": 0.2}

OPS = ["sb20_default", "sb20_explicit", "sb21_default", "sb21_explicit", "sb21_export", "adv_params", "sb21_cfg_shared", "sb21_cfg_fresh", "sb21_full", "sb21_full_shared",
       "mbi_class", "mbi_config", "mbi_config_shared", "mbi_config_shared", "mbi_full", "mbi_full_shared", "mbi_reload", "mbi_reload_given", "otfad_blob", "otfad_export", "iee_xts", "iee_ctr", "bee_prdb", "bee_kib", "bee_header", "bee_full", "hab_nonce",
       "hab_dek_128", "hab_dek_256"]


def _case():
    return st.lists(st.sampled_from(OPS), min_size=2, max_size=10).map(lambda ops: {"ops": ops})


_STATE: dict = {}


def _mbi_cls():
    if "mbi" not in _STATE:
        from spsdk.image.mbi.mbi import create_mbi_class

        _STATE["mbi"] = create_mbi_class("encrypted_signed_ram", "mimxrt595s")
    return _STATE["mbi"]


def _do(op: str, idx: int, env: dict | None = None) -> dict[str, bytes]:
    """Execute one construction; returns {kind: value} of every self-chosen secret.

    env is the per-history environment: a configuration dictionary that the user keeps and passes again
    ("sb21_cfg_shared") and a project directory in which key files of earlier builds are still lying around."""
    env = env if env is not None else {}
    from spsdk.sbfile.sb2.commands import CmdReset
    from spsdk.sbfile.sb2.images import BootImageV20, BootImageV21, SBV2xAdvancedParams
    from spsdk.sbfile.sb2.sections import BootSectionV2

    kek = bytes([idx + 1]) * 32
    if op in ("sb20_default", "sb20_explicit"):
        kw = {} if op == "sb20_default" else {"advanced_params": SBV2xAdvancedParams()}
        img = BootImageV20(False, kek, BootSectionV2(0, CmdReset()), **kw)
        out = {"sb2_dek": img.dek, "sb2_mac": img.mac, "sb2_nonce": img.header.nonce, "sb2_ctr_pair": img.dek + img.header.nonce}
        from vf.ref import sb2_rom

        m = sb2_rom.load(img.export(), kek)
        if (m["dek"], m["mac"], m["header"]["nonce"]) != (img.dek, img.mac, img.header.nonce):
            raise AssertionError("exported SB2.0 does not carry the object's secrets")
        return out
    if op in ("sb21_default", "sb21_explicit", "sb21_export"):
        kw = {} if op != "sb21_explicit" else {"advanced_params": SBV2xAdvancedParams()}
        img = BootImageV21(kek, BootSectionV2(0, CmdReset()), **kw)
        return {"sb2_dek": img.dek, "sb2_mac": img.mac, "sb2_nonce": img.header.nonce, "sb2_ctr_pair": img.dek + img.header.nonce}
    if op in ("sb21_cfg_shared", "sb21_cfg_fresh"):
        # what BootImageV21.load_from_config does with the 'options' of a BD/YAML configuration without dek/mac/nonce
        cfg = env.setdefault("sb21_options", {"flags": 8, "buildNumber": 1}) if op == "sb21_cfg_shared" else {"flags": 8, "buildNumber": 1}
        a = BootImageV21.get_advanced_params(cfg)
        return {"sb2_dek": a.dek, "sb2_mac": a.mac, "sb2_nonce": a.nonce, "sb2_ctr_pair": a.dek + a.nonce}
    if op in ("sb21_full", "sb21_full_shared"):
        # a whole SB2.1 file through BootImageV21.load_from_config (certificate, key and KEK files, no dek/mac/nonce options), as
        # `nxpimage sb21 export` builds it; "shared": one configuration dictionary (parsed once) builds every file of the history
        import copy

        from vf.gen import keys as K
        from vf.ref import sb2_rom

        wd = os.path.join(env["workdir"], "sb21_full")
        if not os.path.isdir(wd):
            os.makedirs(wd)
            key = K.rsa_key(2048, 0)
            with open(os.path.join(wd, "root0.der"), "wb") as f:
                f.write(K.cert_der(K.make_cert(key, key, subject_cn="c17 root", ca=False)))
            with open(os.path.join(wd, "sign_key.pem"), "wb") as f:
                f.write(K.private_pem(key))
            with open(os.path.join(wd, "kek.txt"), "w") as f:
                f.write((b"\x17" * 32).hex())
        base = {"family": "lpc55s6x", "options": {"secureBinaryVersion": "2.1", "flags": 8, "buildNumber": 1},
                "sections": [{"section_id": 0, "commands": [{"reset": {}}]}],
                "rootCertificate0File": "root0.der", "mainRootCertId": 0, "mainCertPrivateKeyFile": "sign_key.pem"}
        cfg = env.setdefault("sb21_full_cfg", base) if op == "sb21_full_shared" else copy.deepcopy(base)
        img = BootImageV21.load_from_config(cfg, key_file_path=os.path.join(wd, "kek.txt"), search_paths=[wd])
        data = img.export()
        m = sb2_rom.load(data, b"\x17" * 32)
        if (m["dek"], m["mac"], m["header"]["nonce"]) != (img.dek, img.mac, img.header.nonce):
            raise AssertionError("exported SB2.1 does not carry the object's secrets")
        return {"sb2_dek": img.dek, "sb2_mac": img.mac, "sb2_nonce": img.header.nonce, "sb2_ctr_pair": img.dek + img.header.nonce}
    if op in ("hab_dek_128", "hab_dek_256"):
        import types

        from spsdk.image.hab.commands.commands import SecCommand
        from spsdk.image.hab.hab_config import CommandsConfig
        from spsdk.image.hab.segments import CsfHabSegment

        bits = int(op[-3:])
        workdir = env.get("workdir") or os.path.join(_STATE.setdefault("scratch", os.getcwd()), "c17-default")
        os.makedirs(workdir, exist_ok=True)
        cmds = CommandsConfig.load_from_config({"sections": [{"section_id": SecCommand.INSTALL_SECRET_KEY.tag, "options": [
            {"SecretKey_Name": "dek_%d.bin" % bits}, {"SecretKey_Length": bits}]}]})
        dek = CsfHabSegment.get_dek_from_config(types.SimpleNamespace(commands=cmds), search_paths=[workdir])
        on_disk = open(os.path.join(workdir, "dek_%d.bin" % bits), "rb").read()
        if on_disk != dek:
            raise AssertionError("HAB DEK file does not hold the DEK that was returned")
        return {"hab_dek_%d" % bits: dek}
    if op == "adv_params":
        a = SBV2xAdvancedParams()
        return {"sb2_dek": a.dek, "sb2_mac": a.mac, "sb2_nonce": a.nonce, "sb2_padding": a.padding}
    if op == "mbi_class":
        obj = _mbi_cls()(app=bytes(64), load_address=0x1000, hmac_key=bytes(32))
        return {"mbi_ctr_iv": bytes(obj.ctr_init_vector)}
    if op in ("mbi_config", "mbi_config_shared"):
        obj = _mbi_cls()()
        from spsdk.image.mbi.mbi_mixin import Mbi_MixinCtrInitVector

        # configuration without CtrInitVector; "shared": one configuration dictionary (loaded once) serves every image of the history
        cfg = env.setdefault("mbi_cfg", {"family": "mimxrt595s"}) if op == "mbi_config_shared" else {}
        Mbi_MixinCtrInitVector.mix_load_from_config(obj, cfg)
        return {"mbi_ctr_iv": bytes(obj.ctr_init_vector)}
    if op in ("mbi_full", "mbi_full_shared"):
        # a whole encrypted image through the configuration path of `nxpimage mbi export` (certificate block, keys, user key from
        # files, no CtrInitVector); "shared": the configuration is read once and the same dictionary builds every image
        from spsdk.image.mbi.mbi import get_mbi_class
        from spsdk.utils.misc import load_configuration
        from vf.gen import mbi as G

        b = env.get("mbi_built")
        if b is None:
            cls = next(c for c in G.all_classes() if G.has(c, "MixinCtrInitVector"))
            case = G.default_case(cls, 1)
            case["opt"].update(iv=None, reloc=None)
            if "tz" in case["opt"]:
                case["opt"]["tz"]["mode"] = "default"
            b = env["mbi_built"] = G.materialise(case, os.path.join(env["workdir"], "mbi_full"))
        if op == "mbi_full":
            obj, image = G.export_like_nxpimage(b.config_path)
        else:
            cfg = env.get("mbi_full_cfg")
            if cfg is None:
                cfg = env["mbi_full_cfg"] = load_configuration(b.config_path)
            obj = get_mbi_class(cfg)()
            obj.load_from_config(cfg, search_paths=[os.path.dirname(b.config_path), "."])
            image = bytes(obj.export_image().export())
        iv = bytes(obj.ctr_init_vector)
        if iv not in image:
            raise AssertionError("the exported image does not carry the object's counter IV")
        return {"mbi_ctr_iv": iv}
    if op in ("mbi_reload", "mbi_reload_given"):
        # one image object that is loaded again and again, as a long-running tool does with its work object
        from spsdk.image.mbi.mbi_mixin import Mbi_MixinCtrInitVector

        obj = env.get("mbi_obj")
        if obj is None:
            obj = env["mbi_obj"] = _mbi_cls()()
            obj.search_paths = None
        given = bytes([0xA0 + idx]) * 16
        Mbi_MixinCtrInitVector.mix_load_from_config(obj, {"CtrInitVector": given.hex()} if op == "mbi_reload_given" else {})
        iv = bytes(obj.ctr_init_vector)
        if op == "mbi_reload_given" and iv != given:
            raise AssertionError("configured CtrInitVector not taken")
        return {"mbi_ctr_iv": iv}
    if op in ("otfad_blob", "otfad_export"):
        from spsdk.utils.crypto.otfad import KeyBlob

        kb = KeyBlob(0x08001000, 0x080013FF)
        out = {"otfad_key": kb.key, "otfad_ctr": kb.ctr_init_vector}
        if op == "otfad_export":
            # the key blob's 4-byte random filler is too short for a collision-free oracle; the exported (wrapped) blob
            # must still differ between two blobs because key and counter do
            blob = kb.export(kek=bytes(16))
            out["otfad_wrapped"] = blob[:40]
            # the 4-byte filler inside the wrapped part (RFC 3394 unwrap with the harness's own AES): judged as a set, see run_history
            from vf.ref import aes as _aes

            for k in range(4):  # four blobs: enough for the set oracle in every history that has this step
                plain = _aes.key_unwrap(bytes(16), (blob if k == 0 else KeyBlob(0x08001000, 0x080013FF).export(kek=bytes(16)))[:48])
                if plain is not None:
                    out["~otfad_filler%d" % k] = plain[32:36]
        return out
    if op in ("iee_xts", "iee_ctr"):
        from spsdk.utils.crypto.iee import IeeKeyBlob, IeeKeyBlobAttribute, IeeKeyBlobKeyAttributes, IeeKeyBlobLockAttributes, IeeKeyBlobModeAttributes

        mode = IeeKeyBlobModeAttributes.AesXTS if op == "iee_xts" else IeeKeyBlobModeAttributes.AesCTRWAddress
        attr = IeeKeyBlobAttribute(IeeKeyBlobLockAttributes.UNLOCK, IeeKeyBlobKeyAttributes.CTR128XTS256, mode)
        kb = IeeKeyBlob(attr, 0x30001000, 0x30001FFF)
        return {"iee_key1": kb.key1, "iee_key2": kb.key2}
    if op == "bee_prdb":
        from spsdk.image.bee import BeeProtectRegionBlock

        return {"bee_counter": BeeProtectRegionBlock().counter[:12]}
    if op == "bee_kib":
        from spsdk.image.bee import BeeKIB

        k = BeeKIB()
        return {"bee_kib_key": k.kib_key, "bee_kib_iv": k.kib_iv}
    if op == "bee_header":
        from spsdk.image.bee import BeeRegionHeader

        h = BeeRegionHeader()
        return {"bee_sw_key": h._sw_key, "bee_kib_key": h._kib.kib_key, "bee_kib_iv": h._kib.kib_iv, "bee_counter": h._prdb.counter[:12]}
    if op == "bee_full":
        # both BEE engines through BeeNxp.load_from_config (user keys given, everything else left to SPSDK): the headers are opened
        # with the user keys; the two engines of one build and the builds of one history must not share counter, KIB key or KIB IV
        from spsdk.image.bee import BeeNxp
        from vf.ref import flashenc as F

        wd = os.path.join(env["workdir"], "bee_full")
        os.makedirs(wd, exist_ok=True)
        with open(os.path.join(wd, "plain.bin"), "wb") as f:
            f.write(bytes(range(256)) * 32)
        keys = [bytes([0x11 + idx]) * 16, bytes([0x77 - idx]) * 16]
        cfg = {"output_folder": os.path.join(wd, "out"), "input_binary": os.path.join(wd, "plain.bin"), "engine_selection": "both",
               "engine_key_selection": "random", "base_address": "0x60000000",
               "bee_engine": [{"bee_cfg": {"user_key": "0x" + k.hex(), "protected_region": [
                   {"start_address": hex(0x60001000 + 0x1000 * i), "length": "0x800", "protected_level": 0}]}} for i, k in enumerate(keys)]}
        bee = BeeNxp.load_from_config(cfg, search_paths=[wd])
        hdrs = bee.export_headers()
        bee.export_image()
        out: dict = {}
        opened = []
        for i, k in enumerate(keys):
            h = F.bee_open_header(bytes(hdrs[i]), k)
            if h is None:
                raise AssertionError("BEE header of engine %d does not open with its user key" % i)
            opened.append(h)
        a, b = opened
        if a["counter"] == b["counter"] or a["kib_key"] == b["kib_key"] or a["kib_iv"] == b["kib_iv"]:
            raise AssertionError("the two engines of one build share counter / KIB key / KIB IV: %s %s" % (a["counter"].hex(), b["counter"].hex()))
        # one kind per engine slot; the distinctness across the builds of the history is judged by the caller
        return {"bee_counter": a["counter"][:12], "bee_kib_key": a["kib_key"], "bee_kib_iv": a["kib_iv"],
                "bee_counter_engine1": b["counter"][:12] + b"\x01", "bee_kib_key_engine1": b["kib_key"] + b"\x01", "bee_kib_iv_engine1": b["kib_iv"] + b"\x01"}
    if op == "hab_nonce":
        from spsdk.image.hab.segments import CsfHabSegment

        return {"hab_nonce": CsfHabSegment.generate_nonce(bytes(0x4000))}
    raise AssertionError(op)


def run_history(case, o: Oracle) -> None:
    ops = list(case["ops"])
    seen: dict[str, dict[bytes, int]] = {}
    _STATE["hist"] = _STATE.get("hist", 0) + 1
    env = {"workdir": os.path.join(_STATE.get("scratch", "."), "c17-hist-%d-%d" % (os.getpid(), _STATE["hist"]))}
    fillers: list = []
    for idx, op in enumerate(ops):
        values = None
        with o.spsdk("construct", op):
            values = _do(op, idx, env)
        if values is None:
            continue
        for kind, val in values.items():
            val = bytes(val)
            if kind.startswith("~"):
                # too short for pairwise distinctness (two of a few dozen 32-bit values may coincide by chance); four or more that are
                # all the same cannot (2^-96): the value is then not drawn per blob
                fillers.append(val)
                continue
            if len(val) < 8:
                raise AssertionError("value %s too short for a distinctness oracle" % kind)
            prev = seen.setdefault(kind, {}).get(val)
            if prev is not None:
                o.fail("fresh", "reused:%s" % kind, "step %d (%s) and step %d (%s) share %s = %s" % (prev, ops[prev], idx, op, kind, val.hex()))
            else:
                seen[kind][val] = idx
    if len(fillers) >= 4:
        o.label("otfad_fillers>=4")
        o.check("fresh", len(set(fillers)) > 1, "constant:otfad_filler", "%d key blobs of one history carry the same filler %s" % (len(fillers), fillers[0].hex()))
    import shutil

    shutil.rmtree(env["workdir"], ignore_errors=True)
    fam = [op.split("_")[0] for op in ops]
    repeat = len(set(fam)) < len(fam)
    if repeat:
        o.label("repeat_kind")
    for op in set(ops):
        o.label("op:" + op)
    o.nontrivial(repeat)
    o.key(tuple(ops))


# ------------------------------------------------------------------ fleet of fresh interpreters
_CHILD = r"""
import sys, json, os
sys.path.insert(0, %(repo)r); sys.path.insert(0, %(verif)r)
import logging; logging.disable(logging.CRITICAL)
from props import c17
out = {}
env = {"workdir": %(workdir)r if %(sequential)r else %(workdir)r + "-%%d" %% os.getpid()}
for idx, op in enumerate(%(ops)r):
    for kind, val in c17._do(op, idx, env).items():
        out.setdefault(kind, []).append(bytes(val).hex())
print("RESULT" + json.dumps(out))
"""


def run_fleet(case, o: Oracle) -> None:
    ops = list(case["ops"])
    n = case["n"]
    env = dict(os.environ)
    procs = []
    verif = os.path.dirname(os.path.dirname(os.path.abspath(__file__)))
    import shutil

    workdir = os.path.join(_STATE.get("scratch", "."), "c17-fleet-%d-%d" % (os.getpid(), case.get("round", 0)))
    shutil.rmtree(workdir, ignore_errors=True)
    sequential = bool(case.get("sequential"))
    code = _CHILD % {"repo": REPO, "verif": verif, "ops": ops, "workdir": workdir, "sequential": sequential}
    outputs = []
    for _ in range(n):
        p = subprocess.Popen([sys.executable, "-c", code], stdout=subprocess.PIPE, stderr=subprocess.PIPE, env=env, cwd=verif)
        if sequential:  # interpreter restarts in one project directory: one build after the other
            outputs.append((p,) + p.communicate(timeout=300))
        else:
            procs.append(p)
    for p in procs:
        outputs.append((p,) + p.communicate(timeout=300))
    import glob as _glob

    for d in _glob.glob(workdir + "*"):
        shutil.rmtree(d, ignore_errors=True)
    results = []
    for p, out, err in outputs:
        line = [l for l in out.decode().splitlines() if l.startswith("RESULT")]
        if p.returncode != 0 or not line:
            o.fail("construct", "fleet_child_failed", err.decode()[-800:])
            continue
        results.append(json.loads(line[0][6:]))
    seen: dict[str, dict[str, int]] = {}
    for pi, res in enumerate(results):
        for kind, vals in res.items():
            if kind.startswith("~"):
                continue  # short values are judged as a set inside one history only
            for v in vals:
                prev = seen.setdefault(kind, {}).get(v)
                if prev is not None:
                    o.fail("fresh", "reused_across_processes:%s" % kind, "process %d and %d share %s = %s" % (prev, pi, kind, v))
                seen[kind][v] = pi
    o.label("fleet", "repeat_kind", "fleet:sequential" if sequential else "fleet:concurrent")
    o.count(len(results), len(results))
    o.nontrivial(len(results) >= 2)
    o.key(("fleet", tuple(ops), n, sequential))
    o.sample({"fleet_processes": n, "ops": ops, "sequential": sequential})


# ------------------------------------------------------------------ workers forked from one parent
_FORK_OPS = ["sb21_default", "adv_params", "mbi_class", "otfad_blob", "iee_ctr", "bee_kib", "bee_prdb", "hab_nonce"]


def run_fork(case, o: Oracle) -> None:
    """A parent that has already built something forks n workers (multiprocessing's default start method on Linux, os.fork in a
    build server); each worker builds the same kinds of artifacts.  Workers are different processes: no two of them, and none
    of them and the parent, may share a self-chosen value."""
    import json

    n = int(case["n"])
    env = {"workdir": os.path.join(_STATE.get("scratch", "."), "c17-fork-%d-%d" % (os.getpid(), case.get("round", 0)))}
    results = []
    parent: dict = {}
    for idx, op in enumerate(_FORK_OPS[: 1 + case.get("round", 0) % 3]):  # the parent draws one to three values before it forks
        with o.spsdk("construct", op):
            for kind, val in _do(op, idx, env).items():
                parent.setdefault(kind, []).append(bytes(val).hex())
    results.append(parent)
    children = []
    for _ in range(n):
        r, w = os.pipe()
        pid = os.fork()
        if pid == 0:  # worker: build, report through the pipe, leave without running the parent's exit handlers
            code = 1
            try:
                os.close(r)
                out: dict = {}
                for idx, op in enumerate(_FORK_OPS):
                    for kind, val in _do(op, idx, {"workdir": env["workdir"] + "-%d" % os.getpid()}).items():
                        out.setdefault(kind, []).append(bytes(val).hex())
                os.write(w, json.dumps(out).encode())
                code = 0
            finally:
                os._exit(code)
        os.close(w)
        children.append((pid, r))
    for pid, r in children:
        data = b""
        while True:
            chunk = os.read(r, 65536)
            if not chunk:
                break
            data += chunk
        os.close(r)
        _, status = os.waitpid(pid, 0)
        if status != 0 or not data:
            o.fail("construct", "fork_child_failed", "worker %d ended with status %d" % (pid, status))
            continue
        results.append(json.loads(data))
    seen: dict = {}
    for pi, res in enumerate(results):
        for kind, vals in res.items():
            if kind.startswith("~"):
                continue  # short values are judged as a set inside one history only
            for v in vals:
                prev = seen.setdefault(kind, {}).get(v)
                if prev is not None:
                    who = lambda k: "the parent" if k == 0 else "forked worker %d" % k  # noqa: E731
                    o.fail("fresh", "reused_across_forked_processes:%s" % kind, "%s and %s share %s = %s" % (who(prev), who(pi), kind, v))
                seen[kind][v] = pi
    import glob as _glob
    import shutil

    for d in _glob.glob(env["workdir"] + "*"):
        shutil.rmtree(d, ignore_errors=True)
    o.label("fleet", "fleet:forked", "repeat_kind")
    o.count(len(results), len(results))
    o.nontrivial(len(results) >= 3)
    o.key(("fork", n, case.get("round", 0)))
    o.sample({"forked_workers": n, "parent_ops_before_fork": _FORK_OPS[: 1 + case.get("round", 0) % 3], "worker_ops": _FORK_OPS})


_FLEET_OPS = [["sb20_default", "sb21_default", "mbi_class", "otfad_export", "iee_xts", "bee_header", "hab_nonce", "sb21_cfg_fresh"],
              ["sb21_explicit", "adv_params", "mbi_config", "iee_ctr", "bee_prdb", "bee_kib", "hab_dek_128", "hab_dek_256"]]


def parts(ctx):
    _STATE["scratch"] = ctx.work
    return [
        HypPart("history", _case(), run_history, {"quick": 1200, "thorough": 60000}),
        EnumPart("fleet", lambda tier: 4 if tier == "quick" else 12,
                 lambda tier, i: {"ops": _FLEET_OPS[i % 2], "n": (4 if tier == "quick" else 8) if i < 2 else 3, "round": i, "sequential": i % 4 >= 2},
                 run_fleet, exhaustive=False, max_shards=4),
        EnumPart("fork_fleet", lambda tier: 3 if tier == "quick" else 12, lambda tier, i: {"n": 2 + i % 3, "round": i}, run_fork,
                 exhaustive=False, max_shards=3),
    ]
