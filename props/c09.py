"""C09 - ciphers, MACs, hashes, CRCs and KDFs match their standards and invert (DESIGN.md section 4, C09)."""
from __future__ import annotations

import hashlib
import os
import hmac as std_hmac
import zlib
import binascii

from hypothesis import strategies as st

from vf.core import HypPart, Oracle
from vf.ref import aes as R
from vf.ref import crc as RC

ID = "C09"
LEVEL = "exploration"
TECHNIQUE = "Hypothesis-generated keys/IVs/messages; differential against pure-Python reference implementations of the standards (FIPS-197, SP 800-38A/B/C, IEEE 1619, RFC 3394/5869) plus encrypt/decrypt inversion and default-parameter paths"
LEVEL_TEXT = (
    "exploration: every wrapper in spsdk.crypto.{symmetric,hash,spsdk_hmac,cmac,hkdf,crc}, the key-store derivations and the SB3.1 KDF "
    "is compared on generated inputs with an independent implementation written from the standard, and inverted; a pass means no "
    "disagreement on the generated inputs (thousands of cases over all key sizes, lengths mod 16, nonce/tag lengths, counter wraps)"
)
RULE = (
    "cases are (wrapper, key size, IV/nonce/tweak given or defaulted, message with length class, AAD/tag/nonce length, counter start and "
    "increments); non-trivial = message empty or not a block multiple, or default IV, or 192/256-bit key, or counter wrap, or CCM with "
    "AAD; distinct by (wrapper, key size, len mod 16, flags) plus message digest"
)
ASSUMPTIONS = [
    "SM4 has no independent implementation here: SM4-CBC is checked by inversion, by recomposing CBC from single-block calls, and against the GB/T 32907 test vector",
    "SHA-1/2 and HMAC references are hashlib/hmac from the standard library (a different binding than `cryptography`)",
    "SB3.1 KDF layout (12-byte LE constant, 8 zero bytes, rights<<6, mode 0x01/0x10, 0, key option 0x20/0x21, BE length, BE iteration) is taken from the format description and cross-checked by C05's calibration on golden files",
]
FLOORS = {"default_iv": 0.005, "nonaligned": 0.03}


def _msg():
    lens = st.one_of(st.integers(0, 200), st.sampled_from([0, 1, 15, 16, 17, 31, 32, 33, 48, 255, 256, 257, 1024, 4096]))
    return lens.flatmap(lambda n: st.binary(min_size=n, max_size=n))


def _key(sizes=(16, 24, 32)):
    return st.sampled_from(list(sizes)).flatmap(lambda n: st.binary(min_size=n, max_size=n))


# ------------------------------------------------------------------ ciphers
def _cipher_case():
    return st.one_of(
        st.fixed_dictionaries({"w": st.just("ecb"), "key": _key(), "blocks": st.one_of(*([st.integers(0, 12)] * 15 + [st.sampled_from([4096, 4097])])), "seed": st.binary(min_size=16, max_size=16)}),
        # messages longer than 64 KiB (a wrapper that feeds the cipher in pieces must not show)
        st.fixed_dictionaries({"w": st.just("long"), "mode": st.sampled_from(["cbc", "ctr", "ctr"]), "key": _key(), "n": st.sampled_from([65536, 65552, 65537, 65551, 131073]),
                               "iv": st.binary(min_size=16, max_size=16), "seed": st.binary(min_size=8, max_size=8)}),
        st.fixed_dictionaries({"w": st.just("cbc"), "key": _key(), "msg": _msg(), "iv": st.one_of(st.none(), st.binary(min_size=16, max_size=16)), "bad_iv": st.integers(0, 40)}),
        st.fixed_dictionaries({"w": st.just("ctr"), "key": _key(), "msg": _msg(), "nonce": st.binary(min_size=16, max_size=16), "high": st.booleans()}),
        st.fixed_dictionaries({"w": st.just("xts"), "key": _key((32, 64)), "units": st.one_of(*([st.integers(1, 40)] * 11 + [st.sampled_from([4095, 4096, 4097, 8193])])), "extra": st.sampled_from([0, 0, 0, 1, 7, 15]), "tweak": st.binary(min_size=16, max_size=16), "seed": st.binary(min_size=8, max_size=8)}),
        st.fixed_dictionaries({"w": st.just("ccm"), "key": _key(), "msg": _msg(), "nonce_len": st.integers(7, 13), "nonce_seed": st.binary(min_size=13, max_size=13), "aad": st.binary(max_size=64), "tag": st.sampled_from([4, 6, 8, 10, 12, 14, 16]), "flip": st.integers(0, 1 << 16)}),
        st.fixed_dictionaries({"w": st.just("wrap"), "kek": _key(), "n": st.integers(2, 10), "seed": st.binary(min_size=8, max_size=8), "flip": st.integers(0, 1 << 16)}),
        st.fixed_dictionaries({"w": st.just("sm4"), "key": st.binary(min_size=16, max_size=16), "msg": _msg(), "iv": st.one_of(st.none(), st.binary(min_size=16, max_size=16))}),
    )


def _stretch(seed: bytes, n: int) -> bytes:
    out = b""
    c = 0
    while len(out) < n:
        out += hashlib.sha256(seed + c.to_bytes(4, "big")).digest()
        c += 1
    return out[:n]


def run_cipher(case, o: Oracle) -> None:
    from spsdk.crypto import symmetric as S
    from spsdk.exceptions import SPSDKError

    w = case["w"]
    o.label("w:" + w)
    if w == "ecb":
        key, n = bytes(case["key"]), case["blocks"]
        msg = _stretch(bytes(case["seed"]), 16 * n)
        with o.spsdk("ecb"):
            ct = S.aes_ecb_encrypt(key, msg)
            o.eq("ecb", "ciphertext", ct, R.ecb_encrypt(key, msg, fast=n > 256))
            o.eq("ecb", "inverse", S.aes_ecb_decrypt(key, ct), msg)
            o.eq("ecb", "decrypt", S.aes_ecb_decrypt(key, msg), R.ecb_decrypt(key, msg, fast=n > 256))
        o.label("klen:%d" % len(key))
        o.nontrivial(len(key) > 16 or n > 1)
        o.key((w, len(key), n, hashlib.sha256(msg + key).hexdigest()[:8]))
    elif w == "cbc":
        key, msg, iv = bytes(case["key"]), bytes(case["msg"]), case["iv"]
        iv = bytes(iv) if iv is not None else None
        padded = msg + bytes(-len(msg) % 16)
        ref = R.cbc_encrypt(key, iv or bytes(16), padded, fast=len(padded) > 512)
        with o.spsdk("cbc", "encrypt"):
            ct = S.aes_cbc_encrypt(key, msg, iv) if iv is not None else S.aes_cbc_encrypt(key, msg)
            o.eq("cbc", "ciphertext", ct, ref)
        with o.spsdk("cbc", "decrypt"):
            # the same optional-parameter choice on both sides must invert
            pt = S.aes_cbc_decrypt(key, ref, iv) if iv is not None else S.aes_cbc_decrypt(key, ref)
            o.eq("cbc", "inverse", pt, padded)
        # invalid IV / key lengths are refused with an SPSDK error
        bl = case["bad_iv"]
        if bl not in (0, 16):
            o.raises("cbc", "bad_iv_enc", lambda: S.aes_cbc_encrypt(key, msg, bytes(bl)), (SPSDKError,))
            o.raises("cbc", "bad_iv_dec", lambda: S.aes_cbc_decrypt(key, ref, bytes(bl)), (SPSDKError,))
        o.raises("cbc", "bad_key", lambda: S.aes_cbc_encrypt(key[:-1], msg, iv), (SPSDKError,))
        o.raises("cbc", "bad_key_dec", lambda: S.aes_cbc_decrypt(key + b"\0", ref, iv), (SPSDKError,))
        if iv is None:
            o.label("default_iv")
        if len(msg) % 16:
            o.label("nonaligned")
        o.label("klen:%d" % len(key))
        o.nontrivial(iv is None or len(msg) % 16 != 0 or len(msg) == 0 or len(key) > 16)
        o.key((w, len(key), len(msg) % 16, iv is None, hashlib.sha256(msg + key).hexdigest()[:8]))
    elif w == "ctr":
        key, msg, nonce = bytes(case["key"]), bytes(case["msg"]), bytes(case["nonce"])
        if case["high"]:
            nonce = nonce[:8] + b"\xff" * 7 + bytes([0xFE | nonce[15] & 1])  # carries ripple through the counter
            o.label("ctr_carry")
        ref = R.ctr_keystream_xor(key, nonce, msg, fast=len(msg) > 512)
        with o.spsdk("ctr"):
            ct = S.aes_ctr_encrypt(key, msg, nonce)
            o.eq("ctr", "ciphertext", ct, ref)
            o.eq("ctr", "inverse", S.aes_ctr_decrypt(key, ct, nonce), msg)
        if len(msg) % 16:
            o.label("nonaligned")
        o.nontrivial(len(msg) % 16 != 0 or case["high"] or len(key) > 16)
        o.key((w, len(key), len(msg) % 16, case["high"], hashlib.sha256(msg + key).hexdigest()[:8]))
    elif w == "long":
        key, iv, mode = bytes(case["key"]), bytes(case["iv"]), case["mode"]
        n = case["n"] if mode == "ctr" else case["n"] // 16 * 16
        msg = _stretch(bytes(case["seed"]), n)
        aes = R.Aes(key, True)
        with o.spsdk("long"):
            if mode == "cbc":
                ct = S.aes_cbc_encrypt(key, msg, iv)
                o.eq("long", "cbc_length", len(ct), n)
                # every block is E(plaintext block xor previous ciphertext block): checked around the 64 KiB marks and at the ends
                for i in sorted({0, 1, 4094, 4095, 4096, 4097, n // 16 - 1} & set(range(n // 16))):
                    prev = iv if i == 0 else ct[16 * i - 16 : 16 * i]
                    o.eq("long", "cbc_block", ct[16 * i : 16 * i + 16], aes.enc(R.xor(msg[16 * i : 16 * i + 16], prev)))
                o.eq("long", "cbc_inverse", S.aes_cbc_decrypt(key, ct, iv), msg)
            else:
                ct = S.aes_ctr_encrypt(key, msg, iv)
                o.eq("long", "ctr_length", len(ct), n)
                c0 = int.from_bytes(iv, "big")
                for i in sorted({0, 1, 4094, 4095, 4096, 4097, (n - 1) // 16} & set(range((n + 15) // 16))):
                    ks = aes.enc(((c0 + i) % (1 << 128)).to_bytes(16, "big"))
                    blk = msg[16 * i : 16 * i + 16]
                    o.eq("long", "ctr_block", ct[16 * i : 16 * i + len(blk)], R.xor(blk, ks[: len(blk)]))
                o.eq("long", "ctr_inverse", S.aes_ctr_decrypt(key, ct, iv), msg)
        o.label("long_message", "long:" + mode)
        o.nontrivial(True)
        o.key((w, mode, len(key), n, hashlib.sha256(msg[:64] + key + iv).hexdigest()[:8]))
    elif w == "xts":
        key, tweak = bytes(case["key"]), bytes(case["tweak"])
        if key[: len(key) // 2] == key[len(key) // 2 :]:
            key = bytes([key[0] ^ 1]) + key[1:]  # OpenSSL refuses identical halves
        n = 16 * case["units"] + (case["extra"] if case["units"] >= 1 else 0)
        msg = _stretch(bytes(case["seed"]), n)
        ref = R.xts_crypt(key, tweak, msg, True, fast=n > 256)
        with o.spsdk("xts"):
            ct = S.aes_xts_encrypt(key, msg, tweak)
            o.eq("xts", "ciphertext", ct, ref)
            o.eq("xts", "inverse", S.aes_xts_decrypt(key, ct, tweak), msg)
        if n > 65536:
            o.label("long_message", "long:xts")
        if n % 16:
            o.label("nonaligned", "xts_stealing")
        o.label("klen:%d" % len(key))
        o.nontrivial(True)
        o.key((w, len(key), n, hashlib.sha256(msg + key + tweak).hexdigest()[:8]))
    elif w == "ccm":
        key, msg, aad, tag = bytes(case["key"]), bytes(case["msg"]), bytes(case["aad"]), case["tag"]
        nonce = bytes(case["nonce_seed"])[: case["nonce_len"]]
        if len(msg) >= 1 << (8 * (15 - len(nonce))):
            msg = msg[:255]
        ref = R.ccm_encrypt(key, nonce, msg, aad, tag, fast=len(msg) > 256)
        with o.spsdk("ccm"):
            ct = S.aes_ccm_encrypt(key, msg, nonce, aad, tag)
            o.eq("ccm", "ciphertext", ct, ref)
            o.eq("ccm", "inverse", S.aes_ccm_decrypt(key, ct, nonce, aad, tag), msg)
            if not aad and tag == 16:
                o.eq("ccm", "default_params", S.aes_ccm_encrypt(key, msg, nonce), ref)
        # a modified ciphertext/tag must not decrypt
        pos = case["flip"] % (8 * len(ref))
        bad = bytearray(ref)
        bad[pos // 8] ^= 1 << (pos % 8)
        o.raises("ccm", "tamper", lambda: S.aes_ccm_decrypt(key, bytes(bad), nonce, aad, tag), (Exception,))
        o.label("nonce:%d" % len(nonce), "tag:%d" % tag)
        if aad:
            o.label("ccm_aad")
        if len(msg) % 16:
            o.label("nonaligned")
        o.nontrivial(True)
        o.key((w, len(key), len(nonce), tag, bool(aad), len(msg) % 16, hashlib.sha256(msg + key).hexdigest()[:8]))
    elif w == "wrap":
        kek = bytes(case["kek"])
        plain = _stretch(bytes(case["seed"]), 8 * case["n"])
        ref = R.key_wrap(kek, plain)
        with o.spsdk("wrap"):
            wr = S.aes_key_wrap(kek, plain)
            o.eq("wrap", "wrapped", wr, ref)
            o.eq("wrap", "inverse", S.aes_key_unwrap(kek, wr), plain)
        pos = case["flip"] % (8 * len(ref))
        bad = bytearray(ref)
        bad[pos // 8] ^= 1 << (pos % 8)
        o.raises("wrap", "tamper", lambda: S.aes_key_unwrap(kek, bytes(bad)), (Exception,))
        o.label("klen:%d" % len(kek))
        o.nontrivial(True)
        o.key((w, len(kek), case["n"], hashlib.sha256(plain + kek).hexdigest()[:8]))
    elif w == "sm4":
        key, msg, iv = bytes(case["key"]), bytes(case["msg"]), case["iv"]
        iv = bytes(iv) if iv is not None else None
        padded = msg + bytes(-len(msg) % 16)
        with o.spsdk("sm4"):
            # GB/T 32907 example 1
            k0 = bytes.fromhex("0123456789abcdeffedcba9876543210")
            o.eq("sm4", "standard_vector", S.sm4_cbc_encrypt(k0, k0, bytes(16)).hex(), "681edf34d206965e86b3e94f536e4246")
            ct = S.sm4_cbc_encrypt(key, msg, iv) if iv is not None else S.sm4_cbc_encrypt(key, msg)
            # recompose CBC from the single-block primitive (zero IV, one block = raw block encryption)
            prev = iv or bytes(16)
            want = b""
            for i in range(0, min(len(padded), 96), 16):
                prev = S.sm4_cbc_encrypt(key, R.xor(padded[i : i + 16], prev), bytes(16))
                want += prev
            o.eq("sm4", "cbc_chaining", ct[: len(want)], want)
            o.eq("sm4", "length", len(ct), len(padded))
            pt = S.sm4_cbc_decrypt(key, ct, iv) if iv is not None else S.sm4_cbc_decrypt(key, ct)
            o.eq("sm4", "inverse", pt, padded)
        o.raises("sm4", "bad_key", lambda: S.sm4_cbc_encrypt(key + b"\0", msg, iv), (SPSDKError,))
        if iv is None:
            o.label("default_iv")
        if len(msg) % 16:
            o.label("nonaligned")
        o.nontrivial(iv is None or len(msg) % 16 != 0)
        o.key((w, len(msg) % 16, iv is None, hashlib.sha256(msg + key).hexdigest()[:8]))


# ------------------------------------------------------------------ MAC / hash / CRC / KDF
def _mac_case():
    return st.one_of(
        st.fixed_dictionaries({"w": st.just("hash"), "msg": _msg(), "alg": st.sampled_from(["sha1", "sha256", "sha384", "sha512", "md5"]), "split": st.integers(0, 300), "int": st.integers(0, 1 << 520)}),
        st.fixed_dictionaries({"w": st.just("hmac"), "key": st.binary(min_size=0, max_size=200), "msg": _msg(), "alg": st.sampled_from(["sha1", "sha256", "sha384", "sha512"]), "flip": st.integers(0, 1 << 12)}),
        st.fixed_dictionaries({"w": st.just("cmac"), "key": _key(), "msg": _msg(), "flip": st.integers(0, 127)}),
        st.fixed_dictionaries({"w": st.just("hkdf"), "salt": st.binary(max_size=80), "ikm": st.binary(min_size=1, max_size=80), "info": st.binary(max_size=80), "length": st.integers(1, 255 * 32)}),
        st.fixed_dictionaries({"w": st.just("crc"), "msg": _msg(), "split": st.integers(0, 300)}),
        st.fixed_dictionaries({"w": st.just("keystore"), "key": st.binary(min_size=32, max_size=32), "inp": st.binary(min_size=16, max_size=16), "badlen": st.sampled_from([0, 16, 31, 33])}),
        st.fixed_dictionaries({"w": st.just("sb31kdf"), "pck": _key((16, 32)), "timestamp": st.integers(0, (1 << 64) - 1), "rights": st.integers(0, 3), "klen": st.sampled_from([128, 256]), "block": st.integers(0, 1 << 20)}),
    )


def _ref_hkdf(salt: bytes, ikm: bytes, info: bytes, length: int) -> bytes:
    prk = std_hmac.new(salt or bytes(32), ikm, hashlib.sha256).digest()
    t = b""
    okm = b""
    i = 1
    while len(okm) < length:
        t = std_hmac.new(prk, t + info + bytes([i]), hashlib.sha256).digest()
        okm += t
        i += 1
    return okm[:length]


def _ref_sb31_kdf(key: bytes, constant: int, rights: int, mode: str, klen: int) -> bytes:
    def data(it: int) -> bytes:
        return (
            constant.to_bytes(12, "little")
            + bytes(8)
            + bytes([rights << 6])
            + (b"\x01" if mode == "KDK" else b"\x10")
            + b"\x00"
            + bytes([0x20 if klen == 128 else 0x21])
            + klen.to_bytes(4, "big")
            + it.to_bytes(4, "big")
        )

    out = R.cmac(key, data(1))
    if klen == 256:
        out += R.cmac(key, data(2))
    return out


def run_mac(case, o: Oracle) -> None:
    from spsdk.exceptions import SPSDKError

    w = case["w"]
    o.label("w:" + w)
    if w == "hash":
        from spsdk.crypto.hash import EnumHashAlgorithm, Hash, get_hash, get_hash_length

        msg, alg = bytes(case["msg"]), case["alg"]
        ea = EnumHashAlgorithm.from_label(alg)
        want = hashlib.new(alg, msg).digest()
        with o.spsdk("hash"):
            o.eq("hash", "digest", get_hash(msg, ea), want)
            o.eq("hash", "length", get_hash_length(ea), len(want))
            h = Hash(ea)
            sp = min(case["split"], len(msg))
            h.update(msg[:sp])
            h.update(msg[sp:])
            o.eq("hash", "incremental", h.finalize(), want)
            v = case["int"]
            h2 = Hash(ea)
            h2.update_int(v)
            o.eq("hash", "update_int", h2.finalize(), hashlib.new(alg, v.to_bytes((v.bit_length() + 7) // 8, "big")).digest())
            if alg == "sha256":
                o.eq("hash", "default_alg", get_hash(msg), want)
        o.nontrivial(len(msg) % 64 != 0)
        o.key((w, alg, len(msg), hashlib.sha256(msg).hexdigest()[:8]))
    elif w == "hmac":
        from spsdk.crypto.hash import EnumHashAlgorithm
        from spsdk.crypto.spsdk_hmac import hmac, hmac_validate

        key, msg, alg = bytes(case["key"]), bytes(case["msg"]), case["alg"]
        ea = EnumHashAlgorithm.from_label(alg)
        want = std_hmac.new(key, msg, alg).digest()
        with o.spsdk("hmac"):
            o.eq("hmac", "mac", hmac(key, msg, ea), want)
            o.check("hmac", hmac_validate(key, msg, want, ea) is True, "validate_true")
            bad = bytearray(want)
            pos = case["flip"] % (8 * len(want))
            bad[pos // 8] ^= 1 << (pos % 8)
            o.check("hmac", hmac_validate(key, msg, bytes(bad), ea) is False, "validate_false")
            o.check("hmac", hmac_validate(key, msg + b"\0", want, ea) is False, "validate_msg")
            if alg == "sha256":
                o.eq("hmac", "default_alg", hmac(key, msg), want)
        o.nontrivial(len(key) > 64 or len(msg) % 64 != 0)
        o.key((w, alg, len(key), len(msg), hashlib.sha256(msg + key).hexdigest()[:8]))
    elif w == "cmac":
        from spsdk.crypto.cmac import cmac, cmac_validate

        key, msg = bytes(case["key"]), bytes(case["msg"])
        want = R.cmac(key, msg, fast=len(msg) > 512)
        with o.spsdk("cmac"):
            o.eq("cmac", "mac", cmac(key, msg), want)
            o.check("cmac", cmac_validate(key, msg, want) is True, "validate_true")
            bad = bytearray(want)
            bad[case["flip"] // 8] ^= 1 << (case["flip"] % 8)
            o.check("cmac", cmac_validate(key, msg, bytes(bad)) is False, "validate_false")
        if len(msg) % 16:
            o.label("nonaligned")
        o.label("klen:%d" % len(key))
        o.nontrivial(len(msg) % 16 != 0 or len(msg) == 0 or len(key) > 16)
        o.key((w, len(key), len(msg) % 16, hashlib.sha256(msg + key).hexdigest()[:8]))
    elif w == "hkdf":
        from spsdk.crypto.hkdf import hkdf

        salt, ikm, info, length = bytes(case["salt"]), bytes(case["ikm"]), bytes(case["info"]), case["length"]
        with o.spsdk("hkdf"):
            o.eq("hkdf", "okm", hkdf(salt, ikm, info, length), _ref_hkdf(salt, ikm, info, length))
        o.nontrivial(length > 32 or not salt)
        o.key((w, len(salt), len(info), length, hashlib.sha256(ikm).hexdigest()[:8]))
    elif w == "crc":
        from spsdk.crypto.crc import CrcAlg, from_crc_algorithm

        msg = bytes(case["msg"])
        with o.spsdk("crc"):
            for alg, ref, third in (
                (CrcAlg.CRC32, RC.crc32_iso_hdlc, lambda d: zlib.crc32(d) & 0xFFFFFFFF),
                (CrcAlg.CRC32_MPEG, RC.crc32_mpeg2 if len(msg) <= 300 else RC.Crc32Mpeg2Fast.calc, None),
                (CrcAlg.CRC16_XMODEM, RC.crc16_xmodem, lambda d: binascii.crc_hqx(d, 0)),
            ):
                obj = from_crc_algorithm(alg)
                got = obj.calculate(msg)
                want = ref(msg)
                o.eq("crc", alg.label, got, want)
                if third is not None and third(msg) != want:
                    raise AssertionError("reference CRCs disagree")
                o.check("crc", obj.verify(msg, want) is True and obj.verify(msg, want ^ 1) is False, alg.label + ":verify")
                o.eq("crc", alg.label + ":by_name", from_crc_algorithm(alg.label).calculate(msg), want)
        o.nontrivial(len(msg) > 0)
        o.key((w, len(msg), hashlib.sha256(msg).hexdigest()[:8]))
    elif w == "keystore":
        from spsdk.image.keystore import KeyStore

        key, inp = bytes(case["key"]), bytes(case["inp"])
        with o.spsdk("keystore"):
            o.eq("keystore", "hmac_key", KeyStore.derive_hmac_key(key), R.Aes(key).enc(bytes(16)))
            o.eq("keystore", "enc_image_key", KeyStore.derive_enc_image_key(key), R.Aes(key).enc(b"\x01" + bytes(15)) + R.Aes(key).enc(b"\x02" + bytes(15)))
            o.eq("keystore", "sb_kek", KeyStore.derive_sb_kek_key(key), R.Aes(key).enc(b"\x03" + bytes(15)) + R.Aes(key).enc(b"\x04" + bytes(15)))
            o.eq("keystore", "otfad_kek", KeyStore.derive_otfad_kek_key(key, inp), R.Aes(key).enc(inp))
        if key[0] % 4 == 0:
            # `nxpimage sb21 get-sbkek -k <master key> -o <folder>`: the text file is the key as used for SB generation, the binary
            # file the same bytes in key-store order (reversed), as the command's help and store_key's docstring say
            import contextlib
            import io
            import shutil

            from spsdk.apps.nxpimage import get_sbkek

            want = R.Aes(key).enc(b"\x03" + bytes(15)) + R.Aes(key).enc(b"\x04" + bytes(15))
            outdir = os.path.join(_WORK.get("dir") or ".", "sbkek-%d" % os.getpid())
            shutil.rmtree(outdir, ignore_errors=True)
            buf = io.StringIO()
            with o.spsdk("keystore", "get_sbkek_cli"):
                with contextlib.redirect_stdout(buf):
                    get_sbkek(key.hex(), outdir)
                o.check("keystore", ("SBKEK: " + want.hex()) in buf.getvalue(), "cli_stdout", buf.getvalue()[:200])
                o.eq("keystore", "cli_sbkek_txt", open(os.path.join(outdir, "sbkek.txt")).read().strip().lower(), want.hex())
                o.eq("keystore", "cli_sbkek_bin", open(os.path.join(outdir, "sbkek.bin"), "rb").read(), want[::-1])
                o.eq("keystore", "cli_master_txt", open(os.path.join(outdir, "otp_master_key.txt")).read().strip().lower(), key.hex())
                o.eq("keystore", "cli_master_bin", open(os.path.join(outdir, "otp_master_key.bin"), "rb").read(), key)
            shutil.rmtree(outdir, ignore_errors=True)
            o.label("keystore_cli")
        bl = case["badlen"]
        for fn in (KeyStore.derive_hmac_key, KeyStore.derive_enc_image_key, KeyStore.derive_sb_kek_key):
            o.raises("keystore", "bad_len", lambda f=fn: f(bytes(bl)), (SPSDKError,))
        o.raises("keystore", "bad_len_otfad", lambda: KeyStore.derive_otfad_kek_key(bytes(bl), inp), (SPSDKError,))
        o.nontrivial(True)
        o.key((w, hashlib.sha256(key + inp).hexdigest()[:8]))
    elif w == "sb31kdf":
        from spsdk.sbfile.sb31.functions import KeyDerivator, derive_block_key, derive_kdk

        pck, ts, rights, klen, blk = bytes(case["pck"]), case["timestamp"], case["rights"], case["klen"], case["block"]
        with o.spsdk("sb31kdf"):
            kdk = _ref_sb31_kdf(pck, ts, rights, "KDK", klen)
            o.eq("sb31kdf", "kdk", derive_kdk(pck, ts, klen, rights), kdk)
            bk = _ref_sb31_kdf(kdk, blk, rights, "BLK", klen)
            o.eq("sb31kdf", "block_key", derive_block_key(kdk, blk, klen, rights), bk)
            kd = KeyDerivator(pck, ts, klen, rights)
            o.eq("sb31kdf", "derivator_kdk", kd.kdk, kdk)
            o.eq("sb31kdf", "derivator_block", kd.get_block_key(blk), bk)
        o.raises("sb31kdf", "bad_rights", lambda: derive_kdk(pck, ts, klen, 4), (SPSDKError,))
        o.raises("sb31kdf", "bad_klen", lambda: derive_kdk(pck, ts, 192, rights), (SPSDKError,))
        o.label("kdf_klen:%d" % klen, "rights:%d" % rights)
        o.nontrivial(klen == 256 or rights != 0)
        o.key((w, klen, rights, len(pck), hashlib.sha256(pck + ts.to_bytes(8, "big")).hexdigest()[:8]))


# ------------------------------------------------------------------ Counter
def _counter_case():
    start = st.one_of(st.none(), st.integers(0, (1 << 32) - 1), st.sampled_from([0, 1, (1 << 32) - 2, (1 << 32) - 1, 1 << 31]))
    inc = st.one_of(st.integers(0, 70000), st.sampled_from([0, 1, 16, 0x10000, (1 << 32) - 1, 1 << 31]))
    return st.fixed_dictionaries({
        "nonce": st.one_of(st.binary(min_size=16, max_size=16), st.binary(min_size=12, max_size=12).map(lambda b: b + b"\xff\xff\xff\xff"),
                           st.binary(min_size=12, max_size=12).map(lambda b: b + b"\xfe\xff\xff\xff")),
        "start": start, "order": st.sampled_from(["little", "big"]), "incs": st.lists(inc, max_size=6), "use_default_inc": st.booleans(),
    })


def run_counter(case, o: Oracle) -> None:
    from spsdk.crypto.symmetric import Counter
    from spsdk.exceptions import SPSDKError
    from spsdk.utils.misc import Endianness

    nonce, start, order = bytes(case["nonce"]), case["start"], case["order"]
    end = Endianness.LITTLE if order == "little" else Endianness.BIG
    model = int.from_bytes(nonce[12:], order) + (start or 0)
    wrapped = model >= 1 << 32
    with o.spsdk("counter"):
        if start is None and order == "little":
            c = Counter(nonce)
        elif order == "little":
            c = Counter(nonce, start)
        else:
            c = Counter(nonce, start, end)
        o.eq("counter", "initial", c.value, nonce[:12] + (model % (1 << 32)).to_bytes(4, order))
        for k in case["incs"]:
            if k == 1 and case["use_default_inc"]:
                c.increment()
            else:
                c.increment(k)
            model += k
            wrapped |= model >= 1 << 32
            v = c.value
            o.eq("counter", "after_increment", v, nonce[:12] + (model % (1 << 32)).to_bytes(4, order))
            o.eq("counter", "length", len(v), 16)
    o.raises("counter", "bad_nonce", lambda: Counter(nonce[:15]), (SPSDKError,))
    o.raises("counter", "bad_nonce", lambda: Counter(nonce + b"\0"), (SPSDKError,))
    if wrapped:
        o.label("wrap")
    o.label("order:" + order)
    o.nontrivial(wrapped or bool(case["incs"]))
    o.key((order, wrapped, start is None, len(case["incs"]), hashlib.sha256(nonce + repr(case["incs"]).encode()).hexdigest()[:8]))


_WORK: dict = {}


def parts(ctx):
    _WORK["dir"] = ctx.work
    return [
        HypPart("cipher", _cipher_case(), run_cipher, {"quick": 3500, "thorough": 200000}),
        HypPart("mac", _mac_case(), run_mac, {"quick": 3500, "thorough": 200000}),
        HypPart("counter", _counter_case(), run_counter, {"quick": 2000, "thorough": 100000}),
    ]
