"""C19 - BD command files mean what they say (DESIGN.md section 4, C19)."""
from __future__ import annotations

import copy
import hashlib
import json
import os

from vf.core import VERIF_DIR, Fail, HarnessError, HypPart, Oracle, spsdk_frame
from vf.gen import bd as G
from vf.ref import aes as RA
from vf.ref import bd_interp as BD

ID = "C19"
LEVEL = "exploration"
TECHNIQUE = (
    "Hypothesis grammar strategies for BD programs (value-directed expression trees, generated layout/comments) evaluated by a "
    "hand-written recursive-descent reference interpreter; differential against BDParser.parse and against the command objects "
    "BootImageV21.load_from_config builds; one-unsupported-construct programs must be refused; layout and name-case metamorphic relations"
)
LEVEL_TEXT = (
    "exploration: generated BD programs of the supported subset (options/constants/sources/keyblob blocks in any order, 1-3 sections, "
    "every supported statement form, nested integer and boolean expressions over all operators, integer-size suffixes, several "
    "definitions per line, comments) are interpreted by an spsdk-free reference written from docs/usage/elf2sb.md and calibrated on a "
    "legacy elftosb golden; (a) the parsed configuration and (b) the command objects (class, address, length, data bytes, pattern, "
    "flags, memory id, argument, SP, section id) must match it, (c) programs with one unsupported construct must raise, (d) two "
    "layouts of one token sequence must parse alike. A pass means no disagreement on the generated programs"
)
RULE = (
    "cases are whole BD programs: expression trees are generated towards a chosen value (operands kept where unbounded/32/64-bit and "
    "floor/truncating semantics agree), statements over all supported forms with memory options, ranges, blobs, files, key blobs; "
    "layout (white space, line breaks, // # /* */ comments, several definitions per line) is generated separately. Non-trivial = the "
    "program has >= 1 operator or >= 2 statements (unsupported part: every case); distinct by digest of the token sequence"
)
ASSUMPTIONS = [
    "the reference interpreter (vf/ref/bd_interp.py) is the author's reading of docs/usage/elf2sb.md with the C operator table; it is calibrated at start-up on tests' real_example3.bd against the command list decoded from the legacy elftosb golden legacy_real_example3.sb (range length = end - start, blob bytes in file order, program words little-endian, memory id in flag bits, fill count 4)",
    "expression operands are generated only where unbounded, 32-bit and 64-bit arithmetic and floor/truncating division agree: operands of / % << >> & | ^, comparisons and .w/.h/.b in [0, 2^32), values fit their size suffix, negative intermediates only through + - * and unary signs, operands of && and || are 0/1",
    "fill patterns are generated only where sizing by suffix (elftosb) and sizing by magnitude (SPSDK) give the same 32-bit word: .b any byte, .h >= 0x100, unsuffixed/.w 0 or >= 0x10000",
    "integer-size suffixes directly after ')' or a K literal or an identifier not ending in a hex digit are a documented limitation of the SPSDK lexer: for these programs a refusal is accepted, a wrong value is not",
    "encrypt{} is checked for address, length and plaintext pass-through when the key blob's ADE/VLD bits are clear; the OTFAD cipher text itself belongs to C13. keywrap{} is checked by unwrapping (RFC 3394 reference) and comparing key, counter and start address",
    "section options (`section (1; a=b)`) are accepted by BDParser on purpose (the HAB command files use them) although elf2sb.md calls them unsupported; they are not part of the unsupported list",
    "BD text is LF-terminated (nxpimage reads BD files in text mode); CR characters are not generated",
]
FLOORS = {"has_operator": 0.15, "multi_statement": 0.075, "kind:fill": 0.025, "kind:load": 0.04, "stmt:erase": 0.025, "several_per_line": 0.015,
          "has_comment": 0.05, "op:*": 0.015, "ident_ref": 0.05, "unsupported": 0.02}

RISKY = ("multi_quote_line", "multi_apos_line")
_STATE: dict = {}


# ------------------------------------------------------------------ per-process environment
def _env(work: str) -> dict:
    pid = os.getpid()
    st = _STATE.get(pid)
    if st is None:
        from vf.gen import keys as K

        base = os.path.join(work, "p%d" % pid)
        os.makedirs(base, exist_ok=True)
        key = K.rsa_key(2048, 0)
        with open(os.path.join(base, "cert.der"), "wb") as f:
            f.write(K.cert_der(K.make_cert(key, ca=False)))
        with open(os.path.join(base, "key.pem"), "wb") as f:
            f.write(K.private_pem(key))
        st = {"base": base, "sp": None, "n": 0}
        _STATE.clear()
        _STATE[pid] = st
    return st


def _materialise(env: dict, files: dict) -> str:
    root = os.path.join(env["base"], "files")
    for path, data in files.items():
        full = os.path.join(root, path)
        os.makedirs(os.path.dirname(full), exist_ok=True)
        with open(full, "wb") as f:
            f.write(bytes(data))
    os.makedirs(root, exist_ok=True)
    return root


def _load_from_config(env: dict, cfg: dict, root: str):
    from spsdk.sbfile.sb2.images import BootImageV21

    if env["sp"] is None:
        from spsdk.crypto.signature_provider import PlainFileSP

        env["sp"] = PlainFileSP(os.path.join(env["base"], "key.pem"))
    cert = os.path.join(env["base"], "cert.der")
    return BootImageV21.load_from_config(
        copy.deepcopy(cfg), key_file_path="00" * 32, signing_certificate_file_paths=[cert], root_key_certificate_paths=[cert],
        rkth_out_path=os.path.join(env["base"], "rkth.bin"), search_paths=[root], signature_provider=env["sp"])


def _exc_fail(o: Oracle, sub: str, kind: str, exc: BaseException, detail: str = "") -> None:
    o.fails.append(Fail(sub, kind, spsdk_frame(exc), ("%s: %s | %s" % (type(exc).__name__, str(exc)[:300], detail))[:1500]))


def _r(v) -> str:
    """repr that survives the astronomically large integers a wrong shift can produce."""
    try:
        return repr(v)[:600]
    except ValueError:
        return "<value with an integer of more than 4300 digits>"


# ------------------------------------------------------------------ expected configuration (documented schema: sch_sb21.yaml)
def _mem(d: dict, st: dict, key: str) -> None:
    if st.get("mem") is not None:
        d[key] = st["mem"]["raw"]


def expected_cmd(st: dict) -> dict:
    op = st["op"]
    if op in ("load", "prog"):
        d: dict = {}
        _mem(d, st, "load_opt")
        if st["src"] == "file":
            d["file"] = st["path"]
        elif st["src"] == "blob":
            d["values"] = st["data"]  # bytes: compared by _values_ok
        else:
            d["pattern"] = st["pattern"]
        d["address"] = st["address"]
        if st["length"] is not None:
            d["length"] = st["length"]
        return {"load": d}
    if op == "fill":
        d = {"pattern": st["pattern"], "address": st["address"]}
        if st["length"] is not None:
            d["length"] = st["length"]
        return {"fill": d}
    if op == "erase":
        if st["all"]:
            d = {"address": 0, "flags": 2 if st["unsecure"] else 1}
        else:
            d = {"address": st["address"]}
            if st["length"] is not None:
                d["length"] = st["length"]
        _mem(d, st, "mem_opt")
        return {"erase": d}
    if op == "enable":
        d = {"address": st["address"]}
        _mem(d, st, "mem_opt")
        return {"enable": d}
    if op in ("jump", "call"):
        d = {"address": st["address"]}
        if st.get("sp") is not None:
            d["spreg"] = st["sp"]
        if st["argument"] is not None:
            d["argument"] = st["argument"]
        return {op: d}
    if op == "reset":
        return {"reset": {}}
    if op == "version_check":
        return {"version_check": {"ver_type": st["type"], "fw_version": st["version"]}}
    if op in ("keystore_to_nv", "keystore_from_nv"):
        d = {"address": st["address"]}
        if st["length"] is not None:
            d["length"] = st["length"]
        _mem(d, st, "mem_opt")
        return {op: d}
    if op == "keywrap":
        return {"keywrap": {"keyblob_id": st["keyblob"], "address": st["address"], "values": st["kek"]}}
    if op == "encrypt":
        d = {"keyblob_id": st["keyblob"]}
        d.update(expected_cmd(st["load"])["load"])
        return {"encrypt": d}
    raise AssertionError(op)


def _values_ok(got, want: bytes, words_allowed: bool) -> bool:
    """`values` of the configuration: the blob as hex digits in file order; for a plain load also the documented
    comma separated list of 32-bit words (packed little-endian by the helper) when it denotes the same bytes."""
    if not isinstance(got, str):
        return False
    try:
        if "," not in got and bytes.fromhex(got) == want:
            return True
        if words_allowed:
            words = [int(s, 16) for s in got.split(",")]
            return b"".join(w.to_bytes(4, "little") for w in words) in (want, want + bytes(-len(want) % 4))
    except ValueError:
        pass
    return False


def compare_cmd(got, want: dict) -> list:
    """[(class, kind, detail)] class: 'num' (an integer operand differs) or 'struct'."""
    (op, wd), = want.items()
    if not isinstance(got, dict) or list(got.keys()) != [op]:
        return [("struct", "stmt:%s:statement" % op, "got %s want %s" % (_r(got), op))]
    gd = got[op]
    if not isinstance(gd, dict) or set(gd.keys()) != set(wd.keys()):
        return [("struct", "stmt:%s:keys" % op, "got %s want keys %s" % (_r(gd), sorted(wd)))]
    out = []
    for k, w in wd.items():
        g = gd[k]
        if isinstance(w, bytes):
            if not _values_ok(g, w, words_allowed=(op in ("load", "encrypt") and gd.get("load_opt") not in ("fuse", "ifr", 4))):
                out.append(("struct", "stmt:%s:%s" % (op, k), "got %s want blob %s" % (_r(g), w.hex())))
        elif isinstance(w, int) and not isinstance(g, str):
            if g != w:
                out.append(("num", "stmt:%s:%s" % (op, k), "got %s want %s" % (_r(g), _r(w))))
        elif g != w or type(g) is not type(w):
            out.append(("struct", "stmt:%s:%s" % (op, k), "got %s want %s" % (_r(g), _r(w))))
    return out


def compare_config(parsed: dict, ref: BD.Program):
    """Returns (mismatches, ok_statement set, ok_section_id set)."""
    mism: list = []
    ok_stmt: set = set()
    ok_sid: set = set()
    if not isinstance(parsed, dict):
        return [("struct", "config:type", "got %s" % (_r(parsed)))], ok_stmt, ok_sid
    # options
    gopt = parsed.get("options")
    if not isinstance(gopt, dict) or set(gopt) != set(ref.options):
        mism.append(("struct", "options:keys", "got %s want %s" % (_r(gopt), _r(ref.options))))
    else:
        for k, w in ref.options.items():
            g = gopt[k]
            if isinstance(w, str) or isinstance(g, str):
                if g != w:
                    mism.append(("struct", "options:string", "%s: got %s want %s" % (k, _r(g), _r(w))))
            elif g != w:
                mism.append(("num", "options:value", "%s: got %s want %s" % (k, _r(g), _r(w))))
    # sources
    if parsed.get("sources", {}) != ref.sources:
        mism.append(("struct", "sources", "got %s want %s" % (_r(parsed.get("sources")), _r(ref.sources))))
    # key blobs
    gkb = parsed.get("keyblobs", [])
    if not isinstance(gkb, list) or len(gkb) != len(ref.keyblobs):
        mism.append(("struct", "keyblobs:count", "got %s want %d" % (_r(gkb), len(ref.keyblobs))))
    else:
        for g, w in zip(gkb, ref.keyblobs):
            content = g.get("keyblob_content") if isinstance(g, dict) else None
            if not isinstance(g, dict) or set(g) != {"keyblob_id", "keyblob_content"} or not isinstance(content, list) or len(content) != 1 \
                    or not isinstance(content[0], dict) or set(content[0]) != set(w["opts"]):
                mism.append(("struct", "keyblobs:shape", "got %s want %s" % (_r(g), _r(w))))
                continue
            if g["keyblob_id"] != w["id"]:
                mism.append(("num", "keyblobs:id", "got %s want %s" % (_r(g["keyblob_id"]), _r(w["id"]))))
            for k, wv in w["opts"].items():
                gv = content[0][k]
                if isinstance(wv, str) or isinstance(gv, str):
                    if gv != wv:
                        mism.append(("struct", "keyblobs:string", "%s: got %s want %s" % (k, _r(gv), _r(wv))))
                elif gv != wv:
                    mism.append(("num", "keyblobs:value", "%s: got %s want %s" % (k, _r(gv), _r(wv))))
    # sections
    gsec = parsed.get("sections")
    if not isinstance(gsec, list) or len(gsec) != len(ref.sections):
        mism.append(("struct", "sections:count", "got %s want %d" % (_r(gsec), len(ref.sections))))
        return mism, ok_stmt, ok_sid
    for si, (g, w) in enumerate(zip(gsec, ref.sections)):
        if not isinstance(g, dict) or not isinstance(g.get("commands"), list):
            mism.append(("struct", "sections:shape", "got %s" % (_r(g))))
            continue
        if g.get("section_id") != w["id"] or isinstance(g.get("section_id"), str):
            mism.append(("num", "sections:id", "section %d: got %s want %s" % (si, _r(g.get("section_id")), _r(w["id"]))))
        else:
            ok_sid.add(si)
        if g.get("options") not in ({}, []):
            mism.append(("struct", "sections:options", "got %s" % (_r(g.get("options")))))
        if len(g["commands"]) != len(w["commands"]):
            mism.append(("struct", "sections:statement_count", "section %d: got %d statements want %d: %s" % (si, len(g["commands"]), len(w["commands"]), _r(g["commands"]))))
            continue
        for ci, (gc, wst) in enumerate(zip(g["commands"], w["commands"])):
            m = compare_cmd(gc, expected_cmd(wst))
            if m:
                mism.extend((c, k, "section %d statement %d: %s" % (si, ci, dt)) for c, k, dt in m)
            else:
                ok_stmt.add((si, ci))
    return mism, ok_stmt, ok_sid


# ------------------------------------------------------------------ diagnosis of a wrong value: which operator is at fault
def _lit(v: int) -> str:
    return "%d" % v if v >= 0 else "(0 - %d)" % -v


def diagnose(ref: BD.Program, text: str) -> list:
    """Evaluate every sub-expression in isolation with SPSDK (constants pre-defined with their reference values); returns the
    operators whose own evaluation is wrong, e.g. ['*', '.b']."""
    from spsdk.sbfile.sb2.sly_bd_parser import BDParser

    prelude = "constants {\n" + "".join("%s = %s;\n" % (n, _lit(v)) for n, v in ref.const_order) + "}\n"
    faulty: list = []
    seen: set = set()
    cache: dict = {}

    def spsdk_value(src: str):
        if src not in cache:
            try:
                res = BDParser().parse(prelude + "options {\nx = %s;\n}\n" % src, [])
                cache[src] = ("ok", res["options"]["x"]) if res else ("none", None)
            except Exception as exc:  # noqa: BLE001
                cache[src] = ("exc", type(exc).__name__)
        return cache[src]

    for top in ref.nodes:
        for node in top.walk():
            if node.op in seen or node.op in ("paren",):
                continue
            if any(_has_faulty(k, faulty) for k in node.kids):
                continue  # judged through its smaller faulty part
            src = text[node.start : node.end]
            if "\n" in src or "/*" in src or "//" in src or "#" in src or '"' in src or src.count("'") > 2:
                continue  # keep layout effects out of the diagnosis
            status, val = spsdk_value(src)
            if status != "ok" or isinstance(val, str) or val != node.value:
                name = _OPNAME.get(node.op, node.op)
                if node.op in ("neg", "pos"):
                    ks = text[node.kids[0].start : node.kids[0].end]
                    st2, val2 = spsdk_value("%s(%s)" % ("-" if node.op == "neg" else "+", ks))
                    if st2 == "ok" and not isinstance(val2, str) and val2 == node.value:
                        name = "intsize_precedence" if ks[-2:] in (".w", ".h", ".b") else "precedence:" + name
                if len(node.kids) == 2:
                    # right with both operands parenthesised? then the grouping (precedence) is at fault, not the operator
                    l, r = node.kids
                    ls, rs = text[l.start : l.end], text[r.start : r.end]
                    st2, val2 = spsdk_value("(%s) %s (%s)" % (ls, node.op, rs))
                    if st2 == "ok" and not isinstance(val2, str) and val2 == node.value:
                        name = "intsize_precedence" if (rs[-2:] in (".w", ".h", ".b") or ls[-2:] in (".w", ".h", ".b")) else "precedence:" + node.op
                if name not in faulty:
                    faulty.append(name)
                seen.add(node.op)
    return faulty


_OPNAME = {"num": "literal", "chr": "char_literal", "bool": "bool_literal", "id": "identifier", "neg": "unary-", "pos": "unary+",
           ".w": "intsize", ".h": "intsize", ".b": "intsize"}


def _has_faulty(node: BD.Node, faulty: list) -> bool:
    return any(_OPNAME.get(n.op, n.op) in faulty for n in node.walk())


# ------------------------------------------------------------------ (b) command objects
def _cmd_check(o: Oracle, tag: str, st: dict, cmd, case_files: dict, ref: BD.Program) -> None:
    sub = "commands"

    def eq(kind: str, got, want) -> None:
        o.eq(sub, "%s:%s" % (tag, kind), got, want)

    cls = type(cmd).__name__
    op = st["op"]
    mem_id = st["mem"]["id"] if st.get("mem") else 0
    if op == "load":
        eq("class", cls, "CmdLoad")
        if cls != "CmdLoad":
            return
        want = bytes(case_files[st["path"]]) if st["src"] == "file" else st["data"]
        eq("address", cmd.address, st["address"])
        if _unaligned_blob(st) and bytes(cmd.data) == want + bytes(-len(want) % 4):
            o.label("blob_zero_padded_to_word")  # the configuration can only express whole 32-bit words
        else:
            eq("data", bytes(cmd.data), want)
        eq("mem_id", cmd.mem_id, mem_id)
        eq("flags", cmd.header.flags, BD.mem_flags(mem_id))
    elif op == "fill":
        eq("class", cls, "CmdFill")
        if cls != "CmdFill":
            return
        eq("address", cmd.address, st["address"])
        if st["unambiguous"]:
            eq("pattern", int.from_bytes(bytes(cmd.pattern), "big"), st["word"])
        eq("length", cmd.header.count, st["length"] if st["length"] is not None else 4)
    elif op == "prog":
        eq("class", cls, "CmdProg")
        if cls != "CmdProg":
            return
        eq("address", cmd.address, st["address"])
        eq("word1", cmd.data_word1, st["word1"])
        eq("word2", cmd.data_word2, st["word2"])
        eq("mem_id", cmd.mem_id, BD.PROG_MEM_ID)
        eq("flags_mem", cmd.header.flags & 0xFF00, BD.PROG_MEM_ID << 8)
        if st["word2"]:
            eq("flags_eight_byte", cmd.header.flags & 1, 1)
        elif not st["eight"]:
            eq("flags_eight_byte", cmd.header.flags & 1, 0)
    elif op == "erase":
        eq("class", cls, "CmdErase")
        if cls != "CmdErase":
            return
        eq("address", cmd.address, st["address"])
        if st["all"] or st["length"] is not None:
            eq("length", cmd.length, st["length"] or 0)
        eq("flags", cmd.flags, (2 if st["unsecure"] else 1 if st["all"] else 0) | BD.mem_flags(mem_id))
        eq("mem_id", cmd.mem_id, mem_id)
    elif op == "enable":
        eq("class", cls, "CmdMemEnable")
        if cls != "CmdMemEnable":
            return
        eq("address", cmd.address, st["address"])
        eq("mem_id", cmd.mem_id, mem_id)
        eq("flags", cmd.flags, BD.mem_flags(mem_id))
    elif op == "jump":
        eq("class", cls, "CmdJump")
        if cls != "CmdJump":
            return
        eq("address", cmd.address, st["address"])
        eq("argument", cmd.argument, st["argument"] or 0)
        eq("spreg", cmd.spreg, st["sp"])
        eq("flags", cmd.header.flags, 2 if st["sp"] is not None else 0)
    elif op == "call":
        eq("class", cls, "CmdCall")
        if cls != "CmdCall":
            return
        eq("address", cmd.address, st["address"])
        eq("argument", cmd.argument, st["argument"] or 0)
    elif op == "reset":
        eq("class", cls, "CmdReset")
    elif op == "version_check":
        eq("class", cls, "CmdVersionCheck")
        if cls != "CmdVersionCheck":
            return
        eq("type", cmd.type.tag, st["type"])
        eq("version", cmd.version, st["version"])
    elif op in ("keystore_to_nv", "keystore_from_nv"):
        want_cls = "CmdKeyStoreRestore" if op == "keystore_to_nv" else "CmdKeyStoreBackup"
        eq("class", cls, want_cls)
        if cls != want_cls:
            return
        eq("address", cmd.address, st["address"])
        eq("controller_id", cmd.controller_id, mem_id)
    elif op == "keywrap":
        eq("class", cls, "CmdLoad")
        if cls != "CmdLoad":
            return
        eq("address", cmd.address, st["address"])
        kb = next((k for k in ref.keyblobs if k["id"] == st["keyblob"]), None)
        data = bytes(cmd.data)
        eq("length", len(data), 64)
        plain = RA.key_unwrap(st["kek"], data[:48], fast=True) if len(data) >= 48 else None
        if plain is None:
            o.fail(sub, "%s:unwrap" % tag, "wrapped key blob does not unwrap with the KEK of the statement: %s" % data.hex())
        elif kb is not None:
            eq("key", plain[:16].hex(), kb["opts"]["key"].lower())
            eq("counter", plain[16:24].hex(), kb["opts"]["counter"].lower())
            eq("start", int.from_bytes(plain[24:28], "little"), kb["opts"]["start"])
            eq("end_region", int.from_bytes(plain[28:32], "little") >> 10, kb["opts"]["end"] >> 10)
    elif op == "encrypt":
        eq("class", cls, "CmdLoad")
        if cls != "CmdLoad":
            return
        inner = st["load"]
        eq("address", cmd.address, inner["address"])
        kb = next((k for k in ref.keyblobs if k["id"] == st["keyblob"]), None)
        plain = bytes(case_files[inner["path"]]) if inner["src"] == "file" else inner.get("data", b"")
        data = bytes(cmd.data)
        if kb is not None:
            end = kb["opts"]["end"]
            if (end & 3) == 3:
                padded = plain + bytes(-len(plain) % 512)
                eq("length", len(data), len(padded))
                o.check(sub, data != padded, "%s:not_encrypted" % tag, "ADE and VLD set but the data is the plain text")
            else:
                eq("data", data, plain)
    else:
        raise AssertionError(op)


def _unaligned_blob(st: dict) -> bool:
    """A blob whose length is not a multiple of 4 cannot be expressed by the documented configuration (`values` are 32-bit
    words): exact bytes, zero padding to a whole word or a refusal are all accepted for it."""
    return st["op"] == "load" and st["src"] == "blob" and len(st["data"]) % 4 != 0


def _stmt_tag(st: dict) -> str:
    op = st["op"]
    if op in ("load", "prog"):
        return "%s_%s" % (op, st["src"])
    if op == "erase":
        return "erase_all" if st["all"] else "erase"
    if op == "jump" and st.get("sp") is not None:
        return "jump_sp"
    return op


def _check_commands(o: Oracle, env: dict, cfg: dict, ref: BD.Program, ok_stmt: set, ok_sid: set, case_files: dict, root: str) -> None:
    sub = "commands"
    img = None
    whole_exc = None
    try:
        img = _load_from_config(env, cfg, root)
    except Exception as exc:  # noqa: BLE001
        whole_exc = exc
    if img is not None:
        secs = list(img.boot_sections)
        if not o.eq(sub, "section_count", len(secs), len(ref.sections)):
            return
        for si, (sec, w) in enumerate(zip(secs, ref.sections)):
            if si in ok_sid:
                o.eq(sub, "section_id", sec.uid, w["id"])
            cmds = list(sec._commands)
            if not o.eq(sub, "command_count", len(cmds), len(w["commands"])):
                continue
            for ci, (cmd, st) in enumerate(zip(cmds, w["commands"])):
                if (si, ci) in ok_stmt:
                    _cmd_check(o, _stmt_tag(st), st, cmd, case_files, ref)
        return
    # the whole program was refused: attribute the refusal to statements
    blamed = False
    for si, w in enumerate(ref.sections):
        for ci, st in enumerate(w["commands"]):
            if (si, ci) not in ok_stmt:
                continue
            one = {k: v for k, v in cfg.items() if k != "sections"}
            one["sections"] = [{"section_id": 0, "options": {}, "commands": [cfg["sections"][si]["commands"][ci]]}]
            try:
                img1 = _load_from_config(env, one, root)
            except Exception as exc:  # noqa: BLE001
                blamed = True
                if _unaligned_blob(st):
                    o.label("refused:blob_unaligned")
                    continue
                _exc_fail(o, sub, "%s:exc:%s" % (_stmt_tag(st), type(exc).__name__), exc, "statement %s" % _r(cfg["sections"][si]["commands"][ci]))
                continue
            cmds = list(img1.boot_sections[0]._commands)
            if o.eq(sub, "command_count", len(cmds), 1):
                _cmd_check(o, _stmt_tag(st), st, cmds[0], case_files, ref)
    all_ok = all((si, ci) in ok_stmt for si, w in enumerate(ref.sections) for ci in range(len(w["commands"])))
    if not blamed and all_ok:
        _exc_fail(o, sub, "program:exc:%s" % type(whole_exc).__name__, whole_exc)


# ------------------------------------------------------------------ labels
def _layout_labels(text: str, toks: list, comments: list) -> set:
    labels = set()
    lines = text.split("\n")
    per_line: dict = {}
    for t in toks:
        per_line.setdefault(t.line, []).append(t)
    starts = [0]
    for ln in lines:
        starts.append(starts[-1] + len(ln) + 1)
    for t in toks:
        if t.kind in ("str", "chr"):
            rest = text[t.end : starts[t.line] - 1] if t.line < len(starts) else ""
            q = '"' if t.kind == "str" else "'"
            if q in rest:
                labels.add("multi_quote_line" if t.kind == "str" else "multi_apos_line")
    for line_toks in per_line.values():
        if sum(1 for t in line_toks if t.kind == "op" and t.val == ";") >= 2:
            labels.add("several_per_line")
    if comments:
        labels.add("has_comment")
    return labels


def _ref_equal(a: BD.Program, b: BD.Program) -> bool:
    return (a.options, a.constants, a.sources, a.keyblobs, a.sections) == (b.options, b.constants, b.sources, b.keyblobs, b.sections)


def _check_intent(ref: BD.Program, intent: dict, files: dict) -> None:
    """The generator's own bookkeeping must agree with the reference's reading of the text (harness self-check)."""
    def bad(what, a, b):
        raise AssertionError("reference interpreter and generator disagree on %s: %r != %r" % (what, a, b))

    if ref.options != intent["options"]:
        bad("options", ref.options, intent["options"])
    if ref.constants != intent["constants"]:
        bad("constants", ref.constants, intent["constants"])
    if ref.sources != intent["sources"]:
        bad("sources", ref.sources, intent["sources"])
    if [(k["id"], k["opts"]) for k in ref.keyblobs] != [(k["id"], k["opts"]) for k in intent["keyblobs"]]:
        bad("keyblobs", ref.keyblobs, intent["keyblobs"])
    if len(ref.sections) != len(intent["sections"]):
        bad("section count", len(ref.sections), len(intent["sections"]))
    for rs, ws in zip(ref.sections, intent["sections"]):
        if rs["id"] != ws["id"] or len(rs["commands"]) != len(ws["commands"]):
            bad("section", rs, ws)
        for r, w in zip(rs["commands"], ws["commands"]):
            op = w["op"]
            if r["op"] != op:
                bad("statement", r, w)
            mem = r["mem"]["id"] if r.get("mem") else 0
            if op == "load":
                got = (mem, r["address"], r.get("path"), r.get("data"))
                want = (w["mem"], w["address"], w.get("path"), bytes(w["data"]) if "data" in w else None)
            elif op == "fill":
                got, want = (r["word"], r["address"], r["length"], r["unambiguous"]), (w["word"], w["address"], w["length"], True)
            elif op == "prog":
                got, want = (r["address"], r["word1"], r["word2"], r["eight"]), (w["address"], w["word1"], w["word2"], w["eight"])
            elif op == "erase":
                flags = 2 if r["unsecure"] else 1 if r["all"] else 0
                got, want = (mem, r["address"], r["length"] or 0, flags), (w["mem"], w["address"], w["length"] or 0, w["flags"])
            elif op == "enable":
                got, want = (mem, r["address"]), (w["mem"], w["address"])
            elif op in ("jump", "call"):
                got, want = (r["address"], r["argument"] or 0, r.get("sp")), (w["address"], w["argument"], w["sp"])
            elif op == "reset":
                got = want = None
            elif op == "version_check":
                got, want = (r["type"], r["version"]), (w["type"], w["version"])
            elif op in ("keystore_to_nv", "keystore_from_nv"):
                got, want = (mem, r["address"]), (w["mem"], w["address"])
            elif op == "keywrap":
                got, want = (r["keyblob"], r["kek"], r["address"]), (w["keyblob"], bytes(w["kek"]), w["address"])
            elif op == "encrypt":
                got, want = (r["keyblob"], r["load"]["path"], r["load"]["address"]), (w["keyblob"], w["path"], w["address"])
            else:
                raise AssertionError(op)
            if got != want:
                bad("statement %s" % op, got, want)


# ------------------------------------------------------------------ run_case: valid programs
def make_run_valid(work: str):
    def run_valid(case, o: Oracle) -> None:
        from spsdk.sbfile.sb2.sly_bd_parser import BDParser

        text, alt = case["text"], case.get("alt") or case["text"]
        extern = list(case.get("extern") or [])
        files = {k: bytes(v) for k, v in (case.get("files") or {}).items()}
        comments: list = []
        toks = BD.tokenize(text, comments)
        ref = BD.interpret(text, extern)
        ref_alt = BD.interpret(alt, extern)
        if not _ref_equal(ref, ref_alt):
            raise AssertionError("the two layouts differ for the reference interpreter")
        if case.get("intent") is not None:
            _check_intent(ref, case["intent"], files)
        n_stmt = sum(len(s["commands"]) for s in ref.sections)
        n_ops = sum(1 for top in ref.nodes for nd in top.walk() if nd.kids and nd.op != "paren") + sum(1 for f in ref.features if f.startswith("defined"))
        labels = set(ref.features) | _layout_labels(text, toks, comments)
        if n_ops:
            labels.add("has_operator")
        if n_stmt >= 2:
            labels.add("multi_statement")
        if len(ref.sections) >= 2:
            labels.add("multi_section")
        labels.add("statements:%s" % (n_stmt if n_stmt < 4 else "4+"))
        o.label(*labels)
        o.nontrivial(n_ops >= 1 or n_stmt >= 2)
        o.key(hashlib.sha256(json.dumps([t.text for t in toks]).encode()).hexdigest()[:16])
        o.sample({"text": text, "extern": extern})
        weak = "intsize_after_nonhex" in ref.features
        alt_comments: list = []
        alt_labels = _layout_labels(alt, BD.tokenize(alt, alt_comments), alt_comments)
        suspects = "".join("+" + r for r in RISKY if r in labels or r in alt_labels)

        def parse(src: str):
            try:
                return "ok", BDParser().parse(src, list(extern))
            except Exception as exc:  # noqa: BLE001
                return "exc", exc

        # ---- (a) parse equals the reference
        s1, parsed = parse(text)
        s2, parsed_alt = parse(alt)
        if s1 == "exc":
            if weak:
                o.label("refused:intsize_lexer")
            elif s2 == "ok" and parsed_alt is not None:
                # the canonical layout of the same tokens is accepted: the layout is what is refused
                _exc_fail(o, "parse", "rejects_valid:layout%s:exc:%s" % (suspects, type(parsed).__name__), parsed, text)
            else:
                faulty = diagnose(ref_alt, alt)
                for opname in faulty:
                    o.fail("parse", "value:" + opname, "operator evaluated wrongly, which makes the program fail with %s: %s" % (type(parsed).__name__, str(parsed)[:300]))
                if not faulty:
                    _exc_fail(o, "parse", "rejects_valid:program%s:exc:%s" % (suspects, type(parsed).__name__), parsed, text)
            parsed = None
        elif parsed is None:
            if not weak:
                o.fail("parse", "rejects_valid:returned_none" + suspects, text)
        ok_stmt: set = set()
        ok_sid: set = set()
        mism: list = []
        if parsed is not None:
            pristine = copy.deepcopy(parsed)
            mism, ok_stmt, ok_sid = compare_config(parsed, ref)
            if mism:
                faulty = diagnose(ref_alt, alt) if any(c == "num" for c, _, _ in mism) else []
                first_num = next((dt for c, _, dt in mism if c == "num"), "")
                for opname in faulty:
                    o.fail("parse", "value:" + opname, "operator evaluated wrongly; e.g. " + first_num)
                shown = 0
                for c, kind, dt in mism:
                    if c == "num" and faulty:
                        continue
                    if shown < 4:
                        o.fail("parse", kind + (suspects if c == "struct" else ""), dt)
                        shown += 1
            # ---- (d) layout metamorphic relation
            if s2 == "exc":
                _exc_fail(o, "layout", "canonical_layout_rejected:exc:%s" % type(parsed_alt).__name__, parsed_alt, alt)
            elif parsed_alt != pristine:
                o.fail("layout", "differs" + suspects, "generated layout: %s\ncanonical layout: %s" % (_r(pristine), _r(parsed_alt)))
        # ---- (b) command objects
        cfg = parsed
        if cfg is None and s2 == "ok" and parsed_alt is not None and not weak:
            cfg = parsed_alt
            mism, ok_stmt, ok_sid = compare_config(cfg, ref)
        if cfg is not None:
            # (b) judges the step configuration -> commands: whatever (a) already found wrong in the options / key blobs is
            # replaced by the expected value, statements that were parsed wrongly are left out (ok_stmt)
            cfg = copy.deepcopy(cfg)
            if any(k.startswith("options:") for _, k, _ in mism):
                cfg["options"] = dict(ref.options)
            if any(k.startswith("keyblobs:") for _, k, _ in mism):
                cfg["keyblobs"] = [{"keyblob_id": k["id"], "keyblob_content": [dict(k["opts"])]} for k in ref.keyblobs]
        if cfg is not None and isinstance(cfg.get("sections"), list) and len(cfg["sections"]) == len(ref.sections) \
                and all(isinstance(s, dict) and isinstance(s.get("commands"), list) and len(s["commands"]) == len(w["commands"])
                        for s, w in zip(cfg["sections"], ref.sections)):
            env = _env(work)
            root = _materialise(env, files)
            _check_commands(o, env, cfg, ref, ok_stmt, ok_sid, files, root)
            if parsed is not None:
                _name_case(o, env, root, text, toks, extern, parse, parsed)

    return run_valid


def _cmd_bytes(img) -> list:
    return [[bytes(c.export()).hex() for c in sec._commands] for sec in img.boot_sections]


def _name_case(o: Oracle, env: dict, root: str, text: str, toks: list, extern: list, parse, parsed) -> None:
    """(e) memory names written in another case (`FUSE`, `Qspi`): the documentation writes them in lower case; a program that
    spells one differently is either refused or means what the lower-case spelling means - never something else."""
    names = [t for t in toks if t.text.lower() in BD.MEM_NAMES and t.text in BD.MEM_NAMES]
    if not names:
        return
    pick = int(hashlib.sha256(text.encode()).hexdigest()[:4], 16)
    victim = names[pick % len(names)].text
    other = victim.upper() if pick & 0x100 else victim.capitalize()
    import re

    variant = re.sub(r"(?<![A-Za-z0-9_])%s(?![A-Za-z0-9_])" % re.escape(victim), other, text)
    if variant == text:
        return
    o.label("name_case:" + victim)
    status, got = parse(variant)
    if status == "exc" or got is None:
        o.label("name_case:refused")
        return
    try:
        img_v = _load_from_config(env, got, root)
    except Exception:  # noqa: BLE001
        o.label("name_case:refused")
        return
    try:
        img_o = _load_from_config(env, parsed, root)
    except Exception:  # noqa: BLE001
        return  # the original does not build: judged by (b)
    o.label("name_case:accepted")
    a, b = _cmd_bytes(img_v), _cmd_bytes(img_o)
    if a != b:
        o.fail("name_case", "mistranslated:" + victim, "%r accepted with another meaning than %r: %s against %s" % (other, victim, a, b))


# ------------------------------------------------------------------ run_case: one unsupported construct
def make_run_unsupported(work: str):
    def run_unsupported(case, o: Oracle) -> None:
        from spsdk.sbfile.sb2.sly_bd_parser import BDParser

        text = case["text"]
        extern = list(case.get("extern") or [])
        files = {k: bytes(v) for k, v in (case.get("files") or {}).items()}
        what = case.get("what", "?")
        stage = case.get("stage", "parse")
        comments: list = []
        lay = _layout_labels(text, BD.tokenize(text, comments), comments)
        suspects = "".join("+" + r for r in RISKY if r in lay)
        o.label("unsupported:" + what, "unsupported", *lay)
        o.nontrivial(True)
        o.key(("unsupported", what, hashlib.sha256(text.encode()).hexdigest()[:12]))
        o.sample({"text": text, "what": what})
        # harness self-check: the reference must refuse it too (at parse time) or, for the load stage, accept it
        try:
            ref = BD.interpret(text, extern)
            refused = False
        except BD.BDError:
            ref, refused = None, True
        if refused != (stage == "parse"):
            raise AssertionError("reference interpreter %s the '%s' program: %s" % ("refuses" if refused else "accepts", what, text))
        try:
            parsed = BDParser().parse(text, list(extern))
        except Exception:  # noqa: BLE001
            return  # refused
        if parsed is None:
            return  # refused (parse_sb21_config turns None into an error)
        if stage == "parse":
            o.fail("unsupported", "accepted:" + what + suspects, "returned %s for\n%s" % (_r(parsed), text))
            return
        env = _env(work)
        root = _materialise(env, files)
        try:
            img = _load_from_config(env, parsed, root)
        except Exception:  # noqa: BLE001
            return
        o.fail("unsupported", "accepted:" + what + suspects, "load_from_config built %d sections for\n%s" % (len(img.boot_sections), text))

    return run_unsupported


# ------------------------------------------------------------------ calibration against the legacy elftosb golden
def calibrate(ctx) -> None:
    fx = os.path.join(VERIF_DIR, "fixtures", "c19")
    with open(os.path.join(fx, "real_example3.bd"), encoding="utf-8") as f:
        text = f.read()
    with open(os.path.join(fx, "real_example3.legacy_commands.json"), encoding="utf-8") as f:
        golden = json.load(f)
    try:
        ref = BD.interpret(text, [])
    except BD.BDError as exc:
        raise HarnessError("reference interpreter refuses real_example3.bd: %s" % exc) from exc
    got = []
    for st in ref.sections[0]["commands"]:
        mem_id = st["mem"]["id"] if st.get("mem") else 0
        op = st["op"]
        if op == "version_check":
            rec = ["FW_VERSION_CHECK", 0, st["type"], st["version"], 0]
        elif op == "prog":
            rec = ["PROG", (BD.PROG_MEM_ID << 8) | (1 if st["eight"] else 0), st["address"], st["word1"], st["word2"]]
        elif op == "load" and st["src"] == "blob":
            rec = ["LOAD", BD.mem_flags(mem_id), st["address"], st["data"].hex()]
        elif op == "load":
            rec = ["LOAD", BD.mem_flags(mem_id), st["address"], "file:" + st["path"]]
        elif op == "fill":
            rec = ["FILL", 0, st["address"], st["length"] if st["length"] is not None else 4, st["word"]]
        elif op == "enable":
            rec = ["MEM_ENABLE", BD.mem_flags(mem_id), st["address"]]
        elif op == "erase":
            rec = ["ERASE", (2 if st["unsecure"] else 1 if st["all"] else 0) | BD.mem_flags(mem_id), st["address"], st["length"] or 0]
        elif op == "jump":
            rec = ["JUMP", 2 if st["sp"] is not None else 0, st["address"], st["sp"] or 0, st["argument"] or 0]
        else:
            raise HarnessError("calibration: unexpected statement %r" % (st,))
        got.append(rec)
    if ref.sections[0]["id"] != golden["section_id"] or got != golden["commands"]:
        for i, (g, w) in enumerate(zip(got, golden["commands"])):
            if g != w:
                raise HarnessError("calibration: statement %d reads %r, the legacy elftosb file has %r" % (i, g, w))
        raise HarnessError("calibration: command count %d vs %d" % (len(got), len(golden["commands"])))
    # expression semantics self-test of the reference (documented precedence)
    for src, want in (("2 + 3 * 4", 14), ("2 * 3 + 4", 10), ("(2 + 3) * 4", 20), ("1 << 2 + 1", 8), ("7 & 3 << 1", 6), ("1 | 2 ^ 3 & 4", 3),
                      ("10 - 4 - 3", 3), ("100 / 10 / 5", 2), ("- 2 * 3 + 10", 4), ("0x1234.b", 0x34), ("0x12345.h", 0x2345), ("0x55.w", 0x55),
                      ("1K", 1024), ("'ab'", 0x6162), ("1 + 2 == 3 && 2 > 1", 1), ("1 < 2 < 1", 0), ("!0 == 1", 1), ("!1 + 1", 0),
                      ("1 & 2 == 2", 0), ("7 % 4", 3), ("yes + true - no", 2), ("1 || 0 && 0", 1)):
        val = BD.interpret("options { x = %s; }" % src).options["x"]
        if val != want:
            raise HarnessError("reference interpreter: %s = %r, expected %r" % (src, val, want))


# ------------------------------------------------------------------ parts
def parts(ctx):
    return [
        HypPart("programs", G.valid_program(), make_run_valid(ctx.work), {"quick": 2000, "thorough": 150000}),
        HypPart("expressions", G.expression_program(), make_run_valid(ctx.work), {"quick": 1000, "thorough": 100000}),
        HypPart("unsupported", G.unsupported_program(), make_run_unsupported(ctx.work), {"quick": 400, "thorough": 30000}),
    ]
