"""C11 - registers and bit-fields behave as independent bit-vectors (DESIGN.md section 4, C11)."""
from __future__ import annotations

import hashlib
import json
import os
import signal
import sys
from collections import Counter

from hypothesis import strategies as st

from vf.core import Fail, HypPart, Oracle, SkipCase, spsdk_frame
from vf.ref.regmodel import MFile, MGroup, Reject

ID = "C11"
LEVEL = "exploration"
TECHNIQUE = (
    "Hypothesis-generated register layouts (JSON specification + group list as the device database gives them) and "
    "operation histories, interpreted step by step against an independent bit-vector model; all values are compared after every step"
)
LEVEL_TEXT = (
    "exploration: generated layouts (1-4 top-level registers of 8..512 bits, bit-fields at arbitrary offsets/widths with gaps, enums, "
    "SHIFT_RIGHT processors and reset values, groups of 2-16 members with normal/reversed member order, reversed byte order, "
    "alternative widths, both base endiannesses, Registers and FuseRegisters) are driven by histories of up to 30 writes, resets, "
    "binary and configuration round trips and read-only queries; after each step every register, bit-field and group view is compared "
    "with a model that keeps one integer per register. A pass means no divergence on the generated histories, not a proof"
)
RULE = (
    "a case is (layout, history); history steps are whole-register writes (int/hex/bin/dec/bytes, raw or not, to plain registers, groups "
    "and group members), bit-field writes (set_value, set_enum_value by number/name/RAW:, no_preprocess), reset, export/parse round trips "
    "(fresh object and scrambled same object, with size/pattern), parse of arbitrary bytes, get_config/load_yml_config round trips (full and "
    "diff), directed load_yml_config dictionaries and read-only queries; values are in range, 0, 2^w-1, 2^w, 2^w+1, larger, negative or not "
    "a number. non-trivial = at least one accepted bit-field write followed later by an accepted whole-register write or a round trip; "
    "distinct by layout digest x multiset of operation names"
)
ASSUMPTIONS = [
    "layouts are built through _load_from_spec from the JSON structure the device database uses, so `reversed`, `reverse_subregs_order`, "
    "`alternative_widths` and `config_as_hexstring` occur on group registers only (as in the database and its loader)",
    "reset values are consistent (a non-zero bit-field reset equals the corresponding bits of the register reset when both are given); "
    "bit-fields with a SHIFT_RIGHT processor and members of groups with alternative widths reset to 0, as in the database",
    "reverse_subregs_order is not combined with alternative_widths (no database entry does; set and get use different bit positions there)",
    "for groups with alternative_widths 'write v then read v' and the round trips are only demanded when the members beyond the width "
    "taken by v were zero before the write and the byte-reversed view selects the same width as the raw value; export/parse round trips "
    "of such groups are only demanded for little-endian files",
    "a configuration cannot carry register bits that no bit-field (named or gap) covers; such bits are expected to keep their reset value after a config round trip",
    "reserved (hidden) registers are not parsed from a binary by design; they are expected to keep their value",
    "a write of a negative whole-register value is executed under a line-count bound (sys.settrace), because the current code can loop forever on it",
]
FLOORS = {
    "grouped": 0.175,
    "reversed": 0.075,
    "rev_order": 0.04,
    "alt_widths": 0.03,
    "fuse": 0.06,
    "has_fields": 0.275,
    "has_enums": 0.175,
    "shift_field": 0.02,
    "op:set_bf": 0.25,
    "op:set_reg": 0.3,
    "op:query": 0.2,
    "roundtrip": 0.275,
    "config_full": 0.125,
    "config_diff": 0.125,
    "boundary:2^w": 0.1,
    "boundary:2^w-1": 0.075,
    "negative": 0.1,
    "rejected_write": 0.2,
    "enum_name_write": 0.035,
    "bf_then_reg": 0.1,
    "group_write": 0.04,
}

_K = int.from_bytes(hashlib.sha512(b"c11 value spreader").digest(), "big") | 1
_MAX_STEPS = 30
_CASE_TIMEOUT_S = 120  # safety net only (a healthy case takes milliseconds)


# experiments only (see notes/c11-report.md): C11_STRICT=alt_binary,alt_readback,alt_config,group_diff also demands the identities
# that ASSUMPTIONS exclude. Never set by check.py or the manifest.
_STRICT = set(filter(None, os.environ.get("C11_STRICT", "").split(",")))


class _Hang(BaseException):
    """Raised by the watchdog / line bound inside the code under test."""


# ====================================================================== generators
_FIELD_WIDTHS = [1, 1, 1, 2, 2, 3, 4, 4, 5, 7, 8, 8, 12, 16, 24, 31, 32, 33, 64]
_VALUE_KINDS = ["in", "in", "in", "in", "wide", "wide", "zero", "max", "max", "pow", "pow", "pow1", "over", "neg", "negbig", "bogus"]
_FORMS = ["int", "int", "int", "hex", "HEX", "hex_us", "bin", "dec", "sfx", "bytes"]
_BOGUS = ["Invalid", "", "0xZZ", "12 34", "0b102", "--1"]


def _vspec():
    return st.fixed_dictionaries({"k": st.sampled_from(_VALUE_KINDS), "x": st.integers(0, (1 << 64) - 1)})


@st.composite
def _reg(draw, idx: int, offset: int, width: int, want_fields: bool, zero_reset: bool):
    reg = {"name": "R%d" % idx, "uid": "uid_r%d" % idx, "offset": offset, "width": width, "hidden": False, "reset": 0, "fields": []}
    fields = []
    if want_fields:
        partial = draw(st.integers(0, 4)) == 0
        off = 0
        k = 0
        while off < width and len(fields) < 9:
            w = min(draw(st.sampled_from(_FIELD_WIDTHS)), width - off)
            if len(fields) == 8 and not partial:
                w = width - off
            if draw(st.integers(0, 5)) == 0:
                fields.append({"name": None, "uid": "", "off": off, "width": w, "shift": 0, "enums": [], "reset": 0})
            else:
                f = {"name": "F%d" % k, "uid": "uid_r%d_f%d" % (idx, k), "off": off, "width": w, "shift": 0, "enums": [], "reset": 0}
                kind = draw(st.sampled_from(["plain", "plain", "enum", "enum", "shift", "enum_shift"]))
                if kind == "enum_shift" and w >= 2:
                    # names for values of a field whose configuration value is the stored value shifted left (an address given in bytes, stored in pages)
                    f["shift"] = draw(st.sampled_from([1, 2, 8]))
                    for j in range(draw(st.integers(1, 3))):
                        f["enums"].append(["F%d_E%d" % (k, j), draw(st.integers(0, (1 << w) - 1)) << f["shift"], draw(st.sampled_from(["int", "hex"]))])
                elif kind == "enum":
                    n = draw(st.integers(1, 4))
                    dup_names = draw(st.integers(0, 3)) == 0  # the database reuses names such as "Reserved"/"Disable" for several values
                    for j in range(n):
                        nm = "F%d_E%d" % (k, draw(st.integers(0, j)) if dup_names else j)
                        f["enums"].append([nm, draw(st.integers(0, (1 << w) - 1)), draw(st.sampled_from(["int", "hex", "bin", "dec"]))])
                elif kind == "shift" and w >= 2:
                    f["shift"] = draw(st.sampled_from([1, 2, 8]))
                fields.append(f)
                k += 1
            off += w
            if partial and off < width and draw(st.integers(0, 2)) == 0:
                break
    reg["fields"] = fields
    if not zero_reset and draw(st.booleans()):
        init = draw(st.one_of(st.integers(0, (1 << width) - 1), st.just((1 << width) - 1)))
        mode = draw(st.sampled_from(["reg", "both", "fields"])) if fields else "reg"
        for f in fields:
            if f["shift"]:
                init &= ~(((1 << f["width"]) - 1) << f["off"])
        if mode in ("reg", "both"):
            reg["reset"] = init
        if mode in ("both", "fields"):
            for f in fields:
                if f["name"] is not None:
                    f["reset"] = (init >> f["off"]) & ((1 << f["width"]) - 1)
    if draw(st.integers(0, 7)) == 0:
        reg["hidden"] = True
    return reg


@st.composite
def _layout(draw):
    lay = {"endian": draw(st.sampled_from(["little", "big"])), "fuse": draw(st.sampled_from([False, False, False, True])), "regs": [], "groups": []}
    n_items = draw(st.integers(1, 4))
    cursor = draw(st.sampled_from([0, 0, 0, 4, 0x10, 0x400]))
    kinds = [draw(st.sampled_from(["plain", "plain", "group"])) for _ in range(n_items)]
    for kind in kinds:
        cursor += draw(st.sampled_from([0, 0, 0, 4, 8]))
        if kind == "plain" or len(lay["groups"]) >= 2:
            width = draw(st.sampled_from([8, 16, 24, 32, 32, 32, 32, 64, 128, 256, 512]))
            reg = draw(_reg(len(lay["regs"]), cursor, width, draw(st.integers(0, 3)) != 0, False))
            lay["regs"].append(reg)
            cursor += width // 8
        else:
            sw = draw(st.sampled_from([8, 16, 32, 32, 32, 64]))
            nsub = draw(st.sampled_from([2, 2, 3, 4, 4, 8, 12, 16]))
            while sw * nsub > 512:
                nsub //= 2
            g = {
                "name": "G%d" % len(lay["groups"]),
                "uid": "grp%d" % len(lay["groups"]),
                "subs": [],
                "width": sw * nsub if draw(st.booleans()) else 0,
                "reversed": draw(st.booleans()),
                "rev_order": draw(st.sampled_from([False, False, True])),
                "hexstring": draw(st.booleans()),
                "alt": [],
            }
            if not g["rev_order"] and draw(st.integers(0, 2)) == 0:
                g["alt"] = sorted(sw * k for k in draw(st.sets(st.integers(1, nsub - 1), min_size=1, max_size=2)))
            member_fields = draw(st.integers(0, 3)) == 0
            member_zero_reset = bool(g["alt"]) or draw(st.integers(0, 3)) != 0
            for _ in range(nsub):
                reg = draw(_reg(len(lay["regs"]), cursor, sw, member_fields and draw(st.booleans()), member_zero_reset))
                reg["hidden"] = False
                g["subs"].append(len(lay["regs"]))
                lay["regs"].append(reg)
                cursor += sw // 8
            lay["groups"].append(g)
    return lay


def _op():
    big = st.integers(0, (1 << 16) - 1)
    set_reg = st.fixed_dictionaries({"op": st.just("set_reg"), "t": big, "v": _vspec(), "form": st.sampled_from(_FORMS), "raw": st.booleans()})
    set_bf = st.fixed_dictionaries({
        "op": st.just("set_bf"), "t": big, "f": big, "v": _vspec(), "form": st.sampled_from(_FORMS), "raw": st.booleans(),
        "how": st.sampled_from(["set", "set", "enum_val", "enum_name", "enum_name", "RAW", "noprep"]),
    })
    reset = st.fixed_dictionaries({"op": st.just("reset"), "t": st.one_of(st.just(-1), big), "raw": st.booleans()})
    exp = st.fixed_dictionaries({"op": st.just("export_parse"), "mode": st.sampled_from(["fresh", "scrambled"]), "seed": big,
                                 "extra": st.sampled_from([0, 0, 0, 1, 4, 16]), "ones": st.booleans()})
    parse = st.fixed_dictionaries({"op": st.just("parse"), "seed": big, "extra": st.sampled_from([0, 0, 3])})
    cfg = st.fixed_dictionaries({"op": st.just("config_rt"), "diff": st.booleans()})
    entry = st.fixed_dictionaries({
        "t": big, "by": st.sampled_from(["name", "name", "uid"]), "style": st.sampled_from(["value", "value_dict", "fields", "fields", "fields_obsolete"]),
        "v": _vspec(), "form": st.sampled_from(["int", "hex", "HEX", "dec", "bin"]),
        "fields": st.lists(st.fixed_dictionaries({"f": big, "v": _vspec(), "form": st.sampled_from(["int", "hex", "dec", "enum", "enum", "RAW"]), "by": st.sampled_from(["name", "name", "uid"])}), min_size=1, max_size=3),
    })
    load = st.fixed_dictionaries({"op": st.just("load"), "entries": st.lists(entry, min_size=1, max_size=3)})
    query = st.fixed_dictionaries({"op": st.just("query"), "which": st.lists(st.sampled_from(_QUERIES), min_size=1, max_size=4), "x": big})
    return st.one_of(set_reg, set_reg, set_bf, set_bf, set_bf, reset, exp, parse, cfg, load, query, query)


def _case():
    # the longer of two draws: Hypothesis favours the lower bound of a range, histories should mostly be long (still shrinks to 1)
    length = st.tuples(st.integers(1, _MAX_STEPS), st.integers(1, _MAX_STEPS)).map(max)
    ops = length.flatmap(lambda n: st.lists(_op(), min_size=n, max_size=n))
    return st.fixed_dictionaries({"layout": _layout(), "ops": ops})


# ====================================================================== value helpers
def _resolve(vs: dict, width: int) -> int:
    k, x, top = vs["k"], int(vs["x"]), 1 << width
    if k == "in":
        return x % top
    if k == "wide":
        return (x * _K) % top
    if k == "zero":
        return 0
    if k == "max":
        return top - 1
    if k == "pow":
        return top
    if k == "pow1":
        return top + 1
    if k == "over":
        return top + 2 + x % (3 * top + 7)
    if k == "neg":
        return -1 - (x % 3)
    if k == "negbig":
        return -1 - (x % top)
    return 0  # bogus: handled by the caller


def _vclass(v: int, width: int) -> str:
    top = 1 << width
    if v < 0:
        return "negative"
    if v == top:
        return "2^w"
    if v == top - 1:
        return "2^w-1"
    if v == top + 1:
        return "2^w+1"
    if v > top:
        return ">2^w"
    return "in_range"


def _render(v: int, form: str):
    if form == "int":
        return v
    if form == "bytes":
        return v.to_bytes(max(1, (v.bit_length() + 7) // 8), "big") if v >= 0 else v
    if form == "hex":
        return hex(v)
    if form == "HEX":
        return ("0X%X" % v) if v >= 0 else str(v)
    if form == "hex_us":
        if v < 0:
            return hex(v)
        h = "%x" % v
        parts = []
        while h:
            parts.append(h[-4:])
            h = h[:-4]
        return "0x" + "_".join(reversed(parts))
    if form == "bin":
        return bin(v)
    if form == "dec":
        return str(v)
    if form == "sfx":
        return hex(v) + "ul"
    return v


def _stretch(seed: int, n: int) -> bytes:
    out = b""
    c = 0
    while len(out) < n:
        out += hashlib.sha256(b"%d/%d" % (seed, c)).digest()
        c += 1
    return out[:n]


def _hexint(s) -> int:
    """Decode a number printed by the code under test (hex with or without 0x)."""
    if isinstance(s, int):
        return s
    t = str(s).strip().lower().replace("_", "")
    if t.startswith("0x"):
        t = t[2:]
    return int(t, 16)


def _bounded(fn, limit: int = 400000):
    """Run fn() but raise _Hang after `limit` traced events (deterministic endless-loop guard)."""
    n = [0]

    def tracer(frame, event, arg):
        n[0] += 1
        if n[0] > limit:
            raise _Hang("more than %d traced events" % limit)
        return tracer

    old = sys.gettrace()
    sys.settrace(tracer)
    try:
        return fn()
    finally:
        sys.settrace(old)


# ====================================================================== building the object under test
def _spec_of(layout: dict):
    regs = []
    for i, r in enumerate(layout["regs"]):
        s = {"id": r["uid"], "name": r["name"], "description": "register %s" % r["name"], "offset_int": hex(r["offset"]),
             "reg_width": str(r["width"]), "reset_value_int": hex(r["reset"])}
        if r["hidden"]:
            s["is_reserved"] = True
        if layout["fuse"]:
            s["index_int"] = hex(i)
        bfs = []
        for f in r["fields"]:
            if f["name"] is None:
                bfs.append({"width": str(f["width"])})
                continue
            b = {"id": f["uid"], "name": f["name"], "width": str(f["width"]), "offset": hex(f["off"]), "access": "RW",
                 "reset_value_int": hex(f["reset"]), "description": "field %s" % f["name"]}
            if f["shift"]:
                b["config_preprocess"] = "SHIFT_RIGHT:COUNT=%d;DESC=shifted" % f["shift"]
            if f["enums"]:
                b["values"] = [{"name": e[0], "value": _render(e[1], e[2] if len(e) > 2 else "int"), "description": "enum %s" % e[0]} for e in f["enums"]]
            bfs.append(b)
        if bfs:
            s["bitfields"] = bfs
        regs.append(s)
    spec = {"cpu": "verif_c11", "groups": [{"group": {"name": "General", "description": "generated"}, "registers": regs}]}
    grouped = []
    for g in layout["groups"]:
        d = {"uid": g["uid"], "name": g["name"], "sub_regs": [layout["regs"][i]["uid"] for i in g["subs"]], "description": "group"}
        if g["width"]:
            d["width"] = g["width"]
        if g["reversed"]:
            d["reversed"] = True
        if g["rev_order"]:
            d["reverse_subregs_order"] = True
        if g["hexstring"]:
            d["config_as_hexstring"] = True
        if g["alt"]:
            d["alternative_widths"] = list(g["alt"])
        grouped.append(d)
    return spec, grouped


def _build(layout: dict):
    from spsdk.utils.misc import Endianness

    endian = Endianness.LITTLE if layout["endian"] == "little" else Endianness.BIG
    if layout.get("db"):
        # a real register file: built exactly as the callers (pfr, fuses, shadowregs, bca, fcf) build it
        d = layout["db"]
        if layout["fuse"]:
            from spsdk.fuses.fuse_registers import FuseRegisters

            return FuseRegisters(family=d["family"], base_endianness=endian)
        from spsdk.utils.registers import Registers

        return Registers(family=d["family"], feature=d["feature"], base_key=d["sub"] or None, base_endianness=endian)
    if layout["fuse"]:
        from spsdk.fuses.fuse_registers import FuseRegisters

        regs = FuseRegisters(family="verif_c11", base_endianness=endian)
    else:
        from spsdk.utils.registers import Registers

        regs = Registers(family="verif_c11", feature="test", base_endianness=endian)
    spec, grouped = _spec_of(layout)
    regs._load_from_spec(spec, grouped)
    return regs


# ---------------------------------------------------------------------- real layouts from the device database
def _num(x, default: int = 0) -> int:
    """Number as written in the specification files (int, or decimal / 0x / 0b text)."""
    if x is None:
        return default
    if isinstance(x, bool):
        return int(x)
    if isinstance(x, int):
        return x
    t = str(x).strip().lower().replace("_", "")
    for pre, base in (("0x", 16), ("0b", 2), ("0o", 8)):
        if t.startswith(pre):
            return int(t[2:], base)
    return int(t, 10)


def _truth(x) -> bool:
    return x in ("True", "true", "T", "1") if isinstance(x, str) else bool(x)


def _layout_from_spec(spec: dict, grouped: list, endian: str, fuse: bool) -> dict:
    """Translate a database register specification into the layout description (own reading of the JSON)."""
    regs = []
    for grp in spec.get("groups", []):
        for r in grp.get("registers", []):
            fields = []
            off = 0
            for b in r.get("bitfields", []):
                w = _num(b.get("width", 0))
                shift = 0
                cp = b.get("config_preprocess")
                if cp and cp.split(":")[0] == "SHIFT_RIGHT":
                    params = dict(kv.split("=") for kv in cp.split(";")[0].split(":")[1].split(","))
                    shift = _num({k.lower(): v for k, v in params.items()}["count"])
                fields.append({"name": b.get("name"), "uid": b.get("id", ""), "off": off, "width": w, "shift": shift,
                               "enums": [[e.get("name", "N/A"), _num(e["value"])] for e in b.get("values", [])],
                               "reset": _num(b.get("reset_value_int", 0))})
                off += w
            regs.append({"name": r.get("name", "N/A"), "uid": r.get("id", ""), "offset": _num(r.get("offset_int", 0)), "width": _num(r.get("reg_width", 32)),
                         "hidden": _truth(r.get("is_reserved", False)), "reset": _num(r.get("reset_value_int", 0)), "fields": fields})
    groups = []
    for g in grouped or []:
        subs = [i for i, r in enumerate(regs) if r["uid"] in g["sub_regs"]]  # members join in file order
        if not subs:
            continue
        groups.append({"name": g["name"], "uid": g["uid"], "subs": subs, "width": _num(g.get("width", 0)), "offset": _num(g.get("offset", 0)),
                       "reversed": _truth(g.get("reversed", False)), "rev_order": bool(g.get("reverse_subregs_order", False)),
                       "hexstring": bool(g.get("config_as_hexstring", False)), "alt": list(g.get("alternative_widths") or [])})
    return {"endian": endian, "fuse": fuse, "regs": regs, "groups": groups}


def _layout_usable(lay: dict) -> str:
    """'' if the model's assumptions hold for this real layout, else the reason it is left out."""
    names = [r["name"] for r in lay["regs"]] + [g["name"] for g in lay["groups"]]
    uids = [r["uid"] for r in lay["regs"]] + [g["uid"] for g in lay["groups"]]
    if len(set(names)) != len(names) or len(set(uids)) != len(uids) or set(names) & set(uids) - {n for n, u in zip(names, uids) if n == u}:
        return "duplicate register names/ids"
    if not lay["regs"]:
        return "no registers"
    member = {i for g in lay["groups"] for i in g["subs"]}
    offs = [r["offset"] for i, r in enumerate(lay["regs"]) if i not in member and r["offset"]]
    if len(set(offs)) != len(offs):
        return "registers sharing an offset (alias merging is not modelled)"
    for r in lay["regs"]:
        if r["width"] % 8 or r["width"] == 0:
            return "register width not a multiple of 8"
        fn = [f["name"] for f in r["fields"] if f["name"] is not None]
        fu = [f["uid"] for f in r["fields"] if f["uid"]]
        if len(set(fn)) != len(fn) or len(set(fu)) != len(fu) or (set(fn) & set(fu)) - {f["name"] for f in r["fields"] if f["name"] == f["uid"]}:
            return "duplicate bit-field names/ids"
        if sum(f["width"] for f in r["fields"]) > r["width"] or any(f["width"] <= 0 for f in r["fields"]):
            return "bit-fields exceed the register"
        for f in r["fields"]:
            fr = f["reset"]
            if fr and (f["shift"] or fr >> f["width"] or (r["reset"] and (r["reset"] >> f["off"]) & ((1 << f["width"]) - 1) != fr)):
                return "inconsistent reset values"
            if any(v >> (f["width"] + f["shift"]) for _, v in f["enums"]):
                return "enum value outside the field"
    for g in lay["groups"]:
        ws = {lay["regs"][i]["width"] for i in g["subs"]}
        if len(ws) != 1:
            return "group members of different width"
        sw = ws.pop()
        if g["width"] and g["width"] != sw * len(g["subs"]):
            return "group width differs from the sum of its members"
        if any(a % sw or a >= sw * len(g["subs"]) for a in g["alt"]) or (g["alt"] and g["rev_order"]):
            return "alternative widths not usable"
        if g["alt"] and any(lay["regs"][i]["reset"] or any(f["reset"] for f in lay["regs"][i]["fields"]) for i in g["subs"]):
            return "alternative widths with member reset values"
    return ""


def _db_locate(d: dict):
    """(spec path, grouped register list) the way Registers.__init__ looks them up."""
    from spsdk.utils.database import get_db

    db = get_db(d["family"])
    key = [d["sub"], "reg_spec"] if d["sub"] else "reg_spec"
    gkey = [d["sub"], "grouped_registers"] if d["sub"] else "grouped_registers"
    return db.get_file_path(d["feature"], key), db.get_list(d["feature"], gkey, [])


def _db_layout(d: dict) -> dict:
    path, grouped = _db_locate(d)
    with open(path, encoding="utf-8") as f:
        spec = json.load(f)
    lay = _layout_from_spec(spec, grouped, d["endian"], d["feature"] == "fuses")
    lay["db"] = dict(d)
    return lay


_CATALOG: list = []
_CATALOG_SKIPPED: dict = {}


def _db_catalog() -> list:
    """Every (feature, family, sub-feature, endianness) whose register file the callers load; deterministic order."""
    if _CATALOG:
        return _CATALOG
    try:
        from spsdk.utils.database import get_families
    except ImportError:
        return []
    cand = []
    for sub in ("cfpa", "cmactable", "cmpa", "romcfg"):
        cand += [{"feature": "pfr", "family": fam, "sub": sub, "endian": "little"} for fam in sorted(get_families("pfr", sub))]
    for feat in ("bca", "fcf"):
        cand += [{"feature": feat, "family": fam, "sub": "", "endian": "little"} for fam in sorted(get_families(feat))]
    for fam in sorted(get_families("fuses")):
        cand += [{"feature": "fuses", "family": fam, "sub": "", "endian": e} for e in ("big", "little")]
    for d in cand:
        try:
            path, _ = _db_locate(d)
            if not path.endswith(".json"):
                raise ValueError("specification is not JSON")
            why = _layout_usable(_db_layout(d))
        except Exception as exc:  # noqa: BLE001 - an entry the database cannot serve is simply not a layout
            why = "%s: %s" % (type(exc).__name__, str(exc)[:60])
        if why:
            _CATALOG_SKIPPED["%s/%s/%s" % (d["feature"], d["family"], d["sub"])] = why
        else:
            _CATALOG.append(d)
    return _CATALOG


def _field_name(f) -> str:
    return f.name if f.name is not None else "HIDDEN_BITFIELD_%03X" % f.off


class _Obj:
    """The SPSDK object plus handles aligned with the model's lists."""

    def __init__(self, layout: dict, m: MFile) -> None:
        self.regs = _build(layout)
        self.plain = [self.regs.find_reg(r.name, include_group_regs=True) for r in m.regs]
        self.groups = [self.regs.find_reg(g.name) for g in m.groups]
        self.fields = [[h.find_bitfield(_field_name(f)) for f in r.fields] for h, r in zip(self.plain, m.regs)]

    def handle(self, target):
        """SPSDK handle of a model register or group."""
        return self.regs.find_reg(target.name, include_group_regs=True)


# ====================================================================== observation
def _observe(ob: _Obj, m: MFile, full: bool = True) -> list:
    """Compare every public view with the model; returns (scope, reg index, field index, what, got, want)."""
    out = []
    try:
        names = [r.name for r in ob.regs]
        want = [t.name for t in m.top]
        if names != want or len(ob.regs) != len(want):
            out.append(("struct", None, None, "top_level_registers", names, want))
    except Exception as exc:  # noqa: BLE001
        out.append(("struct", None, None, "iter_exc:%s" % type(exc).__name__, str(exc)[:100], ""))
    for i, (h, r) in enumerate(zip(ob.plain, m.regs)):
        try:
            v = h.get_value(raw=True)
            if v != r.value:
                out.append(("reg", i, None, "raw_value", v, r.value))
            if not isinstance(v, int) or v < 0 or v >= 1 << r.width:
                continue  # further reads of an out-of-range value may not terminate
            v2 = h.get_value()
            if v2 != r.value:
                out.append(("reg", i, None, "value", v2, r.value))
            if full:
                b = h.get_bytes_value(raw=True)
                wb = r.value.to_bytes(r.width // 8, m.endian)
                if b != wb:
                    out.append(("reg", i, None, "bytes_value", b.hex(), wb.hex()))
                hx = _hexint(h.get_hex_value())
                if hx != r.value:
                    out.append(("reg", i, None, "hex_value", hx, r.value))
            for k, (bf, f) in enumerate(zip(ob.fields[i], r.fields)):
                fv = bf.get_value()
                if fv != f.read():
                    out.append(("field", i, k, "field_value", fv, f.read()))
                elif full:
                    # the enum view names the current value (any enum carrying that value) or prints it as a number
                    ev = bf.get_enum_value()
                    if isinstance(ev, str) and any(n == ev and v == f.read() for n, v in f.enums):
                        pass
                    elif not isinstance(ev, str) or any(n == ev for n, _ in f.enums) or _hexint(ev) != f.read():
                        out.append(("field", i, k, "enum_value", ev, f.enum_name() or hex(f.read())))
        except _Hang:
            raise
        except Exception as exc:  # noqa: BLE001
            out.append(("reg", i, None, "read_exc:%s" % type(exc).__name__, str(exc)[:120], ""))
    for j, (h, g) in enumerate(zip(ob.groups, m.groups)):
        try:
            subs = [s.get_value(raw=True) for s in h.sub_regs]
            if any(not isinstance(sv, int) or sv < 0 or sv >= 1 << g.sw for sv in subs):
                continue  # a member holds an out-of-range value (reported above); reading the group may not terminate
            raw = h.get_value(raw=True)
            comp = 0
            for idx, sv in enumerate(subs):
                comp |= sv << (g.width - (idx + 1) * g.sw if g.rev_order else idx * g.sw)
            if raw != comp:
                out.append(("group", j, None, "raw_not_composition_of_members", raw, comp))
            if raw != g.raw_value():
                out.append(("group", j, None, "raw_value", raw, g.raw_value()))
                continue
            v = h.get_value()
            if v != g.read(False):
                out.append(("group", j, None, "reversed_view" if g.reversed else "value", v, g.read(False)))
            if full:
                b = h.get_bytes_value(raw=True)
                wb = raw.to_bytes(g.taken_bytes(), m.endian)
                if b != wb:
                    out.append(("group", j, None, "bytes_value", b.hex(), wb.hex()))
                hx = h.get_hex_value()
                if _hexint(hx) != g.read(False):
                    out.append(("group", j, None, "hex_value", hx, hex(g.read(False))))
        except _Hang:
            raise
        except Exception as exc:  # noqa: BLE001
            out.append(("group", j, None, "read_exc:%s" % type(exc).__name__, str(exc)[:120], ""))
    return out


def _digest(ob: _Obj) -> str:
    """Structural digest of the object through its attributes (values excluded)."""
    items = []
    for r in list(ob.regs) + [s for g in ob.groups for s in g.sub_regs]:
        items.append((r.name, r.uid, r.offset, r.width, r.hidden, r.reverse, r.reverse_subregs_order, r.config_as_hexstring,
                      sorted(r.alt_widths or []), [s.name for s in r.sub_regs], list(r._alias_names), r.get_reset_value(), r.base_endianness.value,
                      [(b.name, b.uid, b.offset, b.width, b.hidden, b.reset_value, b.config_width, [(e.name, e.value) for e in b.get_enums()]) for b in r._bitfields]))
    return hashlib.sha256(repr(items).encode()).hexdigest()[:16]


# ====================================================================== the interpreter
_QUERIES = ["names", "names_grp", "names_grp", "regs", "regs_grp", "names_excl", "names_excl_grp", "find", "get_reg", "bitfields", "enums",
            "image_info", "schema", "str", "config", "export", "diff", "base_offset", "reset_values", "iter"]


class _Run:
    def __init__(self, case: dict, o: Oracle) -> None:
        self.o = o
        self.layout = case["layout"]
        self.m = MFile(self.layout)
        self.ob = None
        self.dead = False  # object structure damaged: stop the history
        self.bf_written = False
        self.nontrivial = False
        self.names: Counter = Counter()
        self.nfail = 0
        # real fuse files give many registers no byte offset: their binary image overlaps and is not used by any caller
        spans = sorted((t.offset, t.offset + t.width // 8) for t in self.m.top)
        self.overlap = any(a[1] > b[0] for a, b in zip(spans, spans[1:]))
        self._field_target = None

    # ---- plumbing
    def fail(self, sub: str, kind: str, detail: str) -> None:
        if self.nfail < 12:
            self.o.fail(sub, kind, detail)
        self.nfail += 1

    def report(self, step: str, mism: list, entitled_regs: set, entitled_groups: set, main_sub: str, main_kind: str = "") -> bool:
        """Turn mismatches into sub-oracle failures. Returns True when there was none."""
        seen = set()
        for scope, i, k, what, got, want in mism:
            if scope == "struct":
                sub, kind = ("readonly" if main_sub == "readonly" else "structure"), (main_kind or what)
                self.dead = True
            elif scope == "group":
                g = self.m.groups[i]
                if i in entitled_groups or any(self.m.regs.index(s) in entitled_regs for s in g.subs):
                    sub, kind = (main_sub, main_kind or what) if i in entitled_groups else ("group_views", what)
                else:
                    sub, kind = "neighbours", "group_disturbed"
                what = "%s.%s" % (g.name, what)
            else:
                r = self.m.regs[i]
                name = r.name if k is None else "%s.%s" % (r.name, _field_name(r.fields[k]))
                if i not in entitled_regs:
                    sub, kind = "neighbours", "register_disturbed" if k is None else "field_disturbed"
                elif k is None or self._field_target is None or self._field_target == (i, k):
                    sub, kind = main_sub, main_kind or what
                else:
                    sub, kind = "neighbours", "field_disturbed"
                what = "%s %s" % (name, what)
            if (sub, kind) in seen:
                continue
            seen.add((sub, kind))
            self.fail(sub, kind, "%s: %s got %s want %s" % (step, what, _s(got), _s(want)))
        return not mism

    def resync(self) -> bool:
        """After a divergence: force the object back to the model so that the rest of the history stays meaningful."""
        if self.dead:
            return False
        try:
            for h, r in zip(self.ob.plain, self.m.regs):
                h.set_value(r.value, raw=True)
            return not _observe(self.ob, self.m, full=False)
        except _Hang:
            raise
        except Exception:  # noqa: BLE001
            self.dead = True
            return False

    # ---- run
    def run(self, ops: list) -> None:
        o = self.o
        with o.spsdk("build", "load_from_spec"):
            self.ob = _Obj(self.layout, self.m)
        if self.ob is None:
            return
        if not self.report("initial state", _observe(self.ob, self.m), set(), set(), "initial_state"):
            if not self.resync():
                return
        for n, op in enumerate(ops[:_MAX_STEPS]):
            if self.dead:
                break
            name = op["op"]
            self.names[name] += 1
            o.label("op:" + name)
            self._field_target = None
            getattr(self, "op_" + name)("step %d %s" % (n, name), op)

    # ---- targets
    def _pick(self, items: list, x: int):
        return items[int(x) % len(items)] if items else None

    def _entitled(self, target):
        if isinstance(target, MGroup):
            return {self.m.regs.index(s) for s in target.subs}, {self.m.groups.index(target)}
        return {self.m.regs.index(target)}, set()

    def _call_write(self, fn, negative: bool):
        """Returns None when the write was accepted, else the exception."""
        try:
            if negative:
                _bounded(fn)
            else:
                fn()
            return None
        except _Hang:
            raise
        except Exception as exc:  # noqa: BLE001
            return exc

    def _after_write(self, step, what, cls, model_ok, exc, ent_r, ent_g, sub, snap):
        """Common verdict of a write: accepted/rejected as the model says, then all values equal the model."""
        o = self.o
        if model_ok and exc is not None:
            # a valid write was refused: report it, take the write back in the model, nothing may have changed
            self.o.fails.append(Fail(sub, "rejected_valid:exc:%s" % type(exc).__name__, spsdk_frame(exc), "%s: %s raised %s" % (step, what, str(exc)[:200])))
            self.nfail += 1
            self.m.restore(snap)
            if not self.report(step, _observe(self.ob, self.m, full=False), set(), set(), sub):
                self.resync()
            return False
        mism = _observe(self.ob, self.m, full=False)
        if not model_ok:
            o.label("rejected_write")
            if exc is None:
                detail = "; ".join("%s[%s,%s] got %s want %s" % (w, i, k, _s(g), _s(t)) for _, i, k, w, g, t in mism[:3]) or "no visible change"
                self.fail(sub, "accepted:%s" % cls, "%s: %s was accepted; %s" % (step, what, detail))
                if mism:
                    self.resync()
                return False
            # rejected as required: nothing may have changed
            if not self.report(step, mism, set(), set(), sub):
                self.resync()
            return False
        if not self.report(step, mism, ent_r, ent_g, sub, "wrong_value" if mism else ""):
            self.resync()
            return False
        return True

    # ---- operations
    def op_set_reg(self, step: str, op: dict) -> None:
        target = self._pick(self.m.addressable(), op["t"])
        h = self.ob.handle(target)
        raw = bool(op["raw"])
        grp = isinstance(target, MGroup)
        if op["v"]["k"] == "bogus":
            val, v, cls = self._pick(_BOGUS, op["v"]["x"]), None, "not_a_number"
        else:
            v = _resolve(op["v"], target.width)
            val, cls = _render(v, op["form"]), _vclass(v, target.width)
            self.o.label("boundary:" + cls if cls != "in_range" and cls != "negative" else cls)
        what = "%s.set_value(%s, raw=%s)" % (target.name, _s(val), raw)
        snap = self.m.snapshot()
        well_defined = True
        try:
            if v is None:
                raise Reject("not a number")
            if grp and target.alt:
                well_defined = target.beyond_alt_clear(v) if v >= 0 and v < 1 << target.width else True
            target.write(v, raw) if grp else target.write(v)
            model_ok = True
        except Reject:
            self.m.restore(snap)
            model_ok = False
        exc = self._call_write(lambda: h.set_value(val, raw), v is not None and v < 0)
        ent_r, ent_g = self._entitled(target)
        good = self._after_write(step, what, cls, model_ok, exc, ent_r, ent_g, "register_write", snap)
        if good and not self.dead:
            if grp and not (well_defined and target.view_unambiguous()) and "alt_readback" not in _STRICT:
                self.o.label("alt_width_readback_not_demanded")
            else:
                got = h.get_value(raw=raw)
                if got != v:
                    self.fail("register_write", "readback", "%s: %s then get_value(raw=%s) = %s" % (step, what, raw, _s(got)))
            if self.bf_written:
                self.nontrivial = True
                self.o.label("bf_then_reg")
            if grp:
                self.o.label("group_write")

    def op_set_bf(self, step: str, op: dict) -> None:
        cands = [r for r in self.m.regs if r.fields]
        reg = self._pick(cands, op["t"])
        if reg is None:
            return
        ri = self.m.regs.index(reg)
        k = int(op["f"]) % len(reg.fields)
        f = reg.fields[k]
        bf = self.ob.fields[ri][k]
        raw = bool(op["raw"])
        how = op["how"]
        if how == "enum_name" and not f.enums:
            how = "enum_val"
        preprocess = how not in ("RAW", "noprep")
        cfg_w = f.config_width if preprocess else f.width
        self._field_target = (ri, k)
        snap = self.m.snapshot()
        v = None
        if how == "enum_name":
            ename = self._pick(f.enums, op["v"]["x"])[0]
            v = f.enum_value(ename)  # a name the database uses twice stands for its first value
            val, cls = ename, _vclass(v, cfg_w)
            self.o.label("enum_name_write")
            fn = lambda: bf.set_enum_value(ename, raw)  # noqa: E731
            what = "%s.%s.set_enum_value(%r, raw=%s)" % (reg.name, _field_name(f), ename, raw)
        elif op["v"]["k"] == "bogus":
            val, cls = self._pick(_BOGUS, op["v"]["x"]), "not_a_number"
            if how == "RAW":
                val = "RAW:" + val
            if how in ("enum_val", "RAW"):
                fn = lambda: bf.set_enum_value(val, raw)  # noqa: E731
            elif how == "noprep":
                fn = lambda: bf.set_value(val, raw, no_preprocess=True)  # noqa: E731
            else:
                fn = lambda: bf.set_value(val, raw)  # noqa: E731
            what = "%s.%s <- %r (%s)" % (reg.name, _field_name(f), val, how)
        else:
            v = _resolve(op["v"], cfg_w)
            cls = _vclass(v, cfg_w)
            self.o.label("boundary:" + cls if cls not in ("in_range", "negative") else cls)
            if how == "RAW":
                form = op["form"] if op["form"] not in ("int", "bytes") else "hex"
                val = "RAW:%s" % _render(v, form)
                fn = lambda: bf.set_enum_value(val, raw)  # noqa: E731
            elif how == "enum_val":
                val = _render(v, op["form"])
                fn = lambda: bf.set_enum_value(val, raw)  # noqa: E731
            elif how == "noprep":
                val = _render(v, op["form"])
                fn = lambda: bf.set_value(val, raw, no_preprocess=True)  # noqa: E731
            else:
                val = _render(v, op["form"])
                fn = lambda: bf.set_value(val, raw)  # noqa: E731
            what = "%s.%s <- %s (%s, raw=%s, width %d%s)" % (reg.name, _field_name(f), _s(val), how, raw, f.width, ", shift %d" % f.shift if f.shift else "")
        if f.shift:
            self.o.label("shift_field")
        try:
            if v is None:
                raise Reject("not a number")
            f.write(v, preprocess)
            model_ok = True
        except Reject:
            self.m.restore(snap)
            model_ok = False
        exc = self._call_write(fn, v is not None and v < 0)
        good = self._after_write(step, what, cls, model_ok, exc, {ri}, set(), "bitfield_write", snap)
        if good:
            self.bf_written = True

    def op_reset(self, step: str, op: dict) -> None:
        if op["t"] == -1:
            for t in self.m.top:
                if not t.hidden:
                    t.reset()
            with self.o.spsdk("reset", "reset_values"):
                self.ob.regs.reset_values()
            ent_r, ent_g = set(range(len(self.m.regs))), set(range(len(self.m.groups)))
        else:
            target = self._pick(self.m.addressable(), op["t"])
            target.reset()
            with self.o.spsdk("reset", "reset_value"):
                self.ob.handle(target).reset_value(bool(op["raw"]))
            ent_r, ent_g = self._entitled(target)
        if not self.report(step, _observe(self.ob, self.m, full=False), ent_r, ent_g, "reset", "wrong_value"):
            self.resync()

    def _expected_after_binary(self, base: MFile) -> MFile:
        """State a correct parse of this model's export produces in `base` (hidden registers are not parsed)."""
        for t_src, t_dst in zip(self.m.top, base.top):
            if t_src.hidden:
                continue
            for s, d in zip(t_src.plain(), t_dst.plain()):
                d.value = s.value
        return base

    def _binary_demanded(self) -> bool:
        ok = True
        for g in self.m.groups:
            if g.alt and self.m.endian != "little" and "alt_binary" not in _STRICT:
                ok = False
        return ok

    def op_export_parse(self, step: str, op: dict) -> None:
        from spsdk.utils.misc import BinaryPattern

        o = self.o
        if self.overlap:
            o.label("overlapping_offsets_no_binary")
            return
        o.label("roundtrip")
        if self.bf_written:
            self.nontrivial = True
        before = _digest(self.ob)
        data = None
        size = self.m.image_size() + op["extra"] if op["extra"] else 0
        with o.spsdk("export", "export"):
            if size or op["ones"]:
                data = self.ob.regs.export(size=size, pattern=BinaryPattern("ones" if op["ones"] else "zeros"))
            else:
                data = self.ob.regs.export()
        if data is None:
            return
        want = self.m.export(size=size, fill=0xFF if op["ones"] else 0)
        if data != want:
            self.fail("export", "bytes", "%s: export(size=%d) = %s want %s" % (step, size, data.hex(), want.hex()))
        if not self.report(step + " (after export)", _observe(self.ob, self.m, full=False), set(), set(), "readonly", "export_changed_state"):
            self.resync()
        if _digest(self.ob) != before:
            self.fail("readonly", "structure_changed:export", step)
        if not self._binary_demanded():
            o.label("alt_width_binary_roundtrip_not_demanded")
            return
        if op["mode"] == "fresh":
            exp = self._expected_after_binary(MFile(self.layout))
            fresh = None
            with o.spsdk("export_parse", "parse_fresh"):
                fresh = _Obj(self.layout, exp)
                fresh.regs.parse(data)
            if fresh is not None:
                self._roundtrip_verdict(step + " parse(export()) into a fresh object", fresh, exp, "export_parse")
        else:
            # scramble this object, then parse the exported bytes back
            stale_alt = False
            for idx, (h, r) in enumerate(zip(self.ob.plain, self.m.regs)):
                nv = int.from_bytes(_stretch(op["seed"] + idx, r.width // 8), "big")
                if r.group is not None and r.group.alt:
                    stale_alt = stale_alt or nv != 0
                with o.spsdk("register_write", "scramble"):
                    h.set_value(nv, raw=True)
            exp = MFile(self.layout)
            for idx, r in enumerate(exp.regs):
                r.value = int.from_bytes(_stretch(op["seed"] + idx, r.width // 8), "big")
            exp = self._expected_after_binary(exp)
            with o.spsdk("export_parse", "parse_same"):
                self.ob.regs.parse(data)
            if stale_alt and any(g.alt and g.taken_bytes() * 8 != g.width for g in self.m.groups) and "alt_binary" not in _STRICT:
                # members beyond the alternative width keep what they held: not judged, bring the object back
                o.label("alt_width_binary_roundtrip_not_demanded")
                self.resync()
                return
            self.m = exp
            self._roundtrip_verdict(step + " scramble, then parse(export())", self.ob, exp, "export_parse")

    def _roundtrip_verdict(self, step: str, ob: _Obj, exp: MFile, sub: str) -> None:
        mism = _observe(ob, exp, full=False)
        seen = set()
        for scope, i, k, what, got, want in mism:
            if scope == "struct":
                kind, name = "structure", "registers"
            elif scope == "group":
                kind, name = "group_not_restored", exp.groups[i].name
            elif k is None:
                kind, name = "register_not_restored", exp.regs[i].name
            else:
                kind, name = "field_not_restored", "%s.%s" % (exp.regs[i].name, _field_name(exp.regs[i].fields[k]))
            if kind in seen:
                continue
            seen.add(kind)
            self.fail(sub, kind, "%s: %s %s got %s want %s" % (step, name, what, _s(got), _s(want)))
        if mism and ob is self.ob:
            self.resync()

    def op_parse(self, step: str, op: dict) -> None:
        if self.overlap:
            self.o.label("overlapping_offsets_no_binary")
            return
        n = self.m.image_size() + op["extra"]
        data = _stretch(op["seed"], n)
        self.o.label("roundtrip")
        if self.bf_written:
            self.nontrivial = True
        self.m.parse(data)
        with self.o.spsdk("parse", "parse"):
            self.ob.regs.parse(data)
        ent_r, ent_g = set(), set()
        for t in self.m.top:
            if not t.hidden:
                a, b = self._entitled(t)
                ent_r |= a
                ent_g |= b
        if not self.report(step, _observe(self.ob, self.m, full=False), ent_r, ent_g, "parse", "wrong_value"):
            self.resync()

    def _config_expected(self, base: MFile) -> tuple:
        """State that loading this model's configuration into `base` must give; flag = some bits cannot be carried."""
        lost = False
        for t_src, t_dst in zip(self.m.top, base.top):
            if isinstance(t_src, MGroup):
                for s, d in zip(t_src.subs, t_dst.subs):
                    d.value = s.value
            elif t_src.fields:
                cov = t_src.covered_mask
                t_dst.value = (t_src.value & cov) | (t_dst.value & ~cov)
                lost = lost or t_dst.value != t_src.value
            else:
                t_dst.value = t_src.value
        return base, lost

    def _check_config_content(self, step: str, cfg: dict, diff: bool) -> None:
        tops = {t.name: t for t in self.m.top}
        for name, val in cfg.items():
            t = tops.get(name)
            if t is None:
                self.fail("config_content", "unknown_register", "%s: %r" % (step, name))
                continue
            if isinstance(val, dict):
                fl = {_field_name(f): f for f in t.fields}
                for fname, fval in val.items():
                    f = fl.get(fname)
                    if f is None:
                        self.fail("config_content", "unknown_field", "%s: %s.%s" % (step, name, fname))
                        continue
                    ev = f.enum_value(fval) if isinstance(fval, str) else None
                    try:
                        got = ev if ev is not None else _hexint(fval)
                    except ValueError:
                        got = None
                    if got != f.read():
                        self.fail("config_content", "field_value", "%s: %s.%s = %r, field holds %s" % (step, name, fname, fval, hex(f.read())))
            else:
                try:
                    got = _hexint(val)
                except ValueError:
                    got = None
                if got != t.read(False):
                    self.fail("config_content", "register_value", "%s: %s = %r, register holds %s" % (step, name, val, hex(t.read(False))))
        if not diff:
            for t in self.m.top:
                if t.name not in cfg:
                    self.fail("config_content", "register_missing", "%s: %s" % (step, t.name))
                elif t.fields and isinstance(cfg[t.name], dict):
                    for f in t.fields:
                        if not f.hidden and f.name not in cfg[t.name]:
                            self.fail("config_content", "field_missing", "%s: %s.%s" % (step, t.name, f.name))

    def op_config_rt(self, step: str, op: dict) -> None:
        o = self.o
        diff = bool(op["diff"])
        o.label("roundtrip", "config_diff" if diff else "config_full")
        if self.bf_written:
            self.nontrivial = True
        before = _digest(self.ob)
        cfg = None
        with o.spsdk("config_roundtrip", "get_config"):
            cfg = self.ob.regs.get_config(diff=diff)
        if cfg is None:
            return
        if not self.report(step + " (after get_config)", _observe(self.ob, self.m, full=False), set(), set(), "readonly", "get_config_changed_state"):
            self.resync()
        if _digest(self.ob) != before:
            self.fail("readonly", "structure_changed:get_config", step)
        try:
            cfg = json.loads(json.dumps(cfg))
        except (TypeError, ValueError) as exc:
            self.fail("config_content", "not_serialisable", "%s: %s" % (step, exc))
            return
        self._check_config_content(step, cfg, diff)
        for g in self.m.groups:
            if g.alt and not g.view_unambiguous() and "alt_config" not in _STRICT:
                o.label("alt_width_config_roundtrip_not_demanded")
                return
            if diff and g.raw_value() == 0 and any(s.init for s in g.subs) and "group_diff" not in _STRICT:
                # a group has no reset value of its own (it counts as 0): an all-zero group is left out of a diff although its
                # members reset to something else. Not judged (the property does not define the reset value of a group).
                o.label("group_diff_with_member_resets_not_demanded")
                return
        exp, lost = self._config_expected(MFile(self.layout))
        if lost:
            o.label("uncovered_bits_not_in_config")
        fresh = None
        with o.spsdk("config_roundtrip", "load_yml_config"):
            fresh = _Obj(self.layout, exp)
            fresh.regs.load_yml_config(cfg)
        if fresh is not None:
            self._roundtrip_verdict(step + " load_yml_config(get_config(diff=%s)) into a fresh object" % diff, fresh, exp, "config_roundtrip")

    def op_load(self, step: str, op: dict) -> None:
        """A directed configuration dictionary; if the model refuses one item, only that item is loaded (must raise, change nothing)."""
        o = self.o
        # pass 1: plan atomic items (key, target, style, field-key or None, field or None, rendered value, int value or None, preprocess)
        items = []
        used_keys: set = set()
        used_regs: set = set()
        for e in op["entries"]:
            target = self._pick(self.m.addressable(), e["t"])
            key = target.name if e["by"] == "name" else target.uid
            ent_r, _ = self._entitled(target)
            if key in used_keys or ent_r & used_regs:
                continue  # the same register twice (or a group and its member) would make the result order dependent
            used_keys.add(key)
            used_regs |= ent_r
            style = e["style"]
            if style.startswith("fields") and not getattr(target, "fields", None):
                style = "value"
            if style in ("value", "value_dict"):
                if e["v"]["k"] == "bogus":
                    v, val = None, self._pick(["Invalid", "0xZZ", "12 34", "--1"], e["v"]["x"])
                else:
                    v = _resolve(e["v"], target.width)
                    if isinstance(target, MGroup) and target.hexstring and e["form"] != "int":
                        val = {"hex": "0x%x", "HEX": "%X"}.get(e["form"], "%x") % v if v >= 0 else hex(v)
                    else:
                        val = _render(v, e["form"])
                items.append((key, target, style, None, None, val, v, True))
            else:
                fused: set = set()
                for fe in e["fields"]:
                    f = target.fields[int(fe["f"]) % len(target.fields)]
                    if f.off in fused:
                        continue
                    fused.add(f.off)
                    fkey = f.uid if fe["by"] == "uid" and f.uid else _field_name(f)
                    form = fe["form"]
                    pre = True
                    if fe["v"]["k"] == "bogus":
                        v, val = None, self._pick(["Invalid", "0xZZ", "12 34", "--1"], fe["v"]["x"])
                    elif form == "enum" and f.enums:
                        val = self._pick(f.enums, fe["v"]["x"])[0]
                        v = f.enum_value(val)
                        o.label("enum_name_write")
                    elif form == "RAW":
                        pre = False
                        v = _resolve(fe["v"], f.width)
                        val = "RAW:" + hex(v)
                    else:
                        v = _resolve(fe["v"], f.config_width)
                        val = _render(v, form if form in ("int", "hex", "dec") else "int")
                    items.append((key, target, style, fkey, f, val, v, pre))
        if not items:
            return
        # pass 2: apply to the model
        snap = self.m.snapshot()
        bad = None
        for it in items:
            key, target, style, fkey, f, val, v, pre = it
            try:
                if v is None:
                    raise Reject("not a number")
                if f is not None:
                    f.write(v, pre)
                elif isinstance(target, MGroup):
                    if target.alt and 0 <= v < 1 << target.width and not target.beyond_alt_clear(v):
                        o.label("alt_width_readback_not_demanded")
                    target.write(v, raw=False)
                else:
                    target.write(v)
            except Reject:
                bad = it
                break
        if bad is not None:
            self.m.restore(snap)
            items = [bad]
        cfg: dict = {}
        ent_r, ent_g = set(), set()
        negative = False
        for key, target, style, fkey, f, val, v, pre in items:
            negative = negative or (v is not None and v < 0)
            if f is None:
                cfg[key] = val if style == "value" else {"value": val}
            else:
                inner = cfg.setdefault(key, {} if style == "fields" else {"bitfields": {}})
                (inner if style == "fields" else inner["bitfields"])[fkey] = val
            a, b = self._entitled(target)
            ent_r |= a
            ent_g |= b
        what = "load_yml_config(%s)" % _s(cfg)
        cls = "in_range"
        if bad is not None:
            key, target, style, fkey, f, val, v, pre = bad
            o.label("load_rejected")
            if v is None:
                cls = "not_a_number"
            else:
                w = target.width if f is None else (f.config_width if pre else f.width)
                cls = _vclass(v, w)
                o.label("boundary:" + cls if cls != "negative" else cls)
            ent_r, ent_g = set(), set()
        exc = self._call_write(lambda: self.ob.regs.load_yml_config(cfg), negative)
        good = self._after_write(step, what, cls, bad is None, exc, ent_r, ent_g, "load_config", snap)
        if good and self.bf_written:
            self.nontrivial = True
            o.label("bf_then_reg")

    def op_query(self, step: str, op: dict) -> None:
        o = self.o
        regs = self.ob.regs
        m = self.m
        vis_top = [t.name for t in m.top if not t.hidden]
        vis_sub = [s.name for g in m.groups for s in g.subs if not s.hidden]
        for q in op["which"]:
            if self.dead:
                break
            if self.overlap and q in ("image_info", "export"):
                continue
            before = _digest(self.ob)
            o.label("query:" + q)
            with o.spsdk("readonly", "query:" + q):
                if q == "names":
                    o.eq("query_result", "get_reg_names", regs.get_reg_names(), vis_top)
                elif q == "names_grp":
                    o.eq("query_result", "get_reg_names(include_group_regs)", sorted(regs.get_reg_names(include_group_regs=True)), sorted(vis_top + vis_sub))
                elif q == "regs":
                    o.eq("query_result", "get_registers", [r.name for r in regs.get_registers()], vis_top)
                elif q == "regs_grp":
                    o.eq("query_result", "get_registers(include_group_regs)", sorted(r.name for r in regs.get_registers(include_group_regs=True)), sorted(vis_top + vis_sub))
                elif q in ("names_excl", "names_excl_grp"):
                    t = self._pick(m.top, op["x"])
                    want = [n for n in vis_top if not n.startswith(t.name)]
                    if q == "names_excl_grp":
                        want = want + [s.name for g in m.groups if not g.name.startswith(t.name) for s in g.subs if not s.hidden]
                        o.eq("query_result", "get_reg_names(exclude, include_group_regs)", sorted(regs.get_reg_names(exclude=[t.name], include_group_regs=True)), sorted(want))
                    else:
                        o.eq("query_result", "get_reg_names(exclude)", regs.get_reg_names(exclude=[t.name]), want)
                elif q == "find":
                    for t in m.addressable():
                        sub = t not in m.top
                        a = regs.find_reg(t.name, include_group_regs=sub)
                        b = regs.find_reg(t.uid, include_group_regs=True)
                        o.check("query_result", a is b and a.name == t.name, "find_reg", t.name)
                    o.raises("query_result", "find_reg_unknown", lambda: regs.find_reg("NoSuchRegister", include_group_regs=True), (Exception,))
                elif q == "get_reg":
                    for t in m.addressable():
                        o.check("query_result", regs.get_reg(t.uid).name == t.name, "get_reg", t.uid)
                elif q == "bitfields":
                    for h, r in zip(self.ob.plain, m.regs):
                        o.eq("query_result", "get_bitfield_names", h.get_bitfield_names(), [f.name for f in r.fields if not f.hidden])
                        o.eq("query_result", "get_bitfields", [b.name for b in h.get_bitfields()], [f.name for f in r.fields if not f.hidden])
                        for f in r.fields:
                            bfh = h.find_bitfield(_field_name(f))
                            o.check("query_result", (bfh.offset, bfh.width) == (f.off, f.width), "find_bitfield", _field_name(f))
                            if f.uid:
                                o.check("query_result", h.get_bitfield(f.uid) is bfh and h.find_bitfield(f.uid) is bfh, "get_bitfield", f.uid)
                elif q == "enums":
                    for i, r in enumerate(m.regs):
                        for k, f in enumerate(r.fields):
                            bfh = self.ob.fields[i][k]
                            o.eq("query_result", "get_enum_names", bfh.get_enum_names(), [e[0] for e in f.enums])
                            o.eq("query_result", "has_enums", bfh.has_enums(), bool(f.enums))
                            for en, ev in f.enums:
                                o.eq("query_result", "get_enum_constant", bfh.get_enum_constant(en), f.enum_value(en))
                            bfh.get_hex_value()
                            repr(bfh)
                            str(bfh)
                elif q == "image_info":
                    info = regs.image_info()
                    o.eq("query_result", "image_info_len", len(info), m.image_size())
                    str(info)
                elif q == "schema":
                    sch = regs.get_validation_schema()
                    o.eq("query_result", "schema_properties", list(sch["properties"].keys()), vis_top)
                elif q == "str":
                    str(regs)
                    for h in self.ob.plain + self.ob.groups:
                        repr(h)
                        str(h)
                elif q == "config":
                    regs.get_config()
                    regs.get_config(diff=True)
                elif q == "export":
                    o.eq("export", "bytes", regs.export(), m.export())
                elif q == "diff":
                    other = _Obj(self.layout, MFile(self.layout))
                    regs.get_diff(other.regs)
                    o.check("query_result", regs.get_diff(regs) == [], "get_diff_self", "")
                elif q == "base_offset":
                    if vis_top:
                        o.eq("query_result", "get_base_offset", regs.get_base_offset(), min(t.offset for t in m.top if not t.hidden))
                elif q == "reset_values":
                    for h, r in zip(self.ob.plain, m.regs):
                        o.eq("query_result", "get_reset_value", h.get_reset_value(), r.init)
                        for bfh, f in zip(self.ob.fields[m.regs.index(r)], r.fields):
                            o.eq("query_result", "bitfield_reset_value", bfh.get_reset_value(), f.init())
                elif q == "iter":
                    o.eq("query_result", "iter", [r.name for r in regs], [t.name for t in m.top])
                    o.eq("query_result", "len", len(regs), len(m.top))
            mism = _observe(self.ob, m, full=False)
            if mism:
                if not self.report("%s %s" % (step, q), mism, set(), set(), "readonly", "state_changed:" + q):
                    self.resync()
            elif _digest(self.ob) != before:
                self.fail("readonly", "structure_changed:" + q, step)
                self.dead = True


def _s(v) -> str:
    if isinstance(v, int) and not isinstance(v, bool):
        return hex(v) if abs(v) < 1 << 200 else hex(v)[:40] + "...(%d bits)" % v.bit_length()
    s = repr(v)
    return s if len(s) < 160 else s[:160] + "..."


def _on_alarm(signum, frame):
    raise _Hang("case exceeded %d s" % _CASE_TIMEOUT_S)


def run_db_history(case, o: Oracle) -> None:
    d = case["db"]
    layout = _db_layout(d)
    why = _layout_usable(layout)
    if why:
        raise SkipCase()
    o.label("db:" + d["feature"], "db_layout")
    run_history({"layout": layout, "ops": case["ops"]}, o)
    o.sample({"db": d, "registers": len(layout["regs"]), "groups": [g["name"] for g in layout["groups"]], "ops": [op["op"] for op in case["ops"]]})


def run_history(case, o: Oracle) -> None:
    layout = case["layout"]
    run = _Run(case, o)
    old = signal.signal(signal.SIGALRM, _on_alarm)
    signal.alarm(_CASE_TIMEOUT_S)
    try:
        run.run(list(case["ops"]))
    except _Hang as exc:
        o.fail("termination", "endless_loop", "%s (last operations: %s)" % (exc, dict(run.names)))
    finally:
        signal.alarm(0)
        signal.signal(signal.SIGALRM, old)
    # classification
    if layout["groups"]:
        o.label("grouped")
    for g in layout["groups"]:
        if g["reversed"]:
            o.label("reversed")
        if g["rev_order"]:
            o.label("rev_order")
        if g["alt"]:
            o.label("alt_widths")
        if g["width"]:
            o.label("group_explicit_width")
        if any(layout["regs"][i]["fields"] for i in g["subs"]):
            o.label("member_fields")
    if any(r["fields"] for r in layout["regs"]):
        o.label("has_fields")
    if any(f["enums"] for r in layout["regs"] for f in r["fields"]):
        o.label("has_enums")
    if any(len({e[0] for e in f["enums"]}) != len(f["enums"]) for r in layout["regs"] for f in r["fields"]):
        o.label("dup_enum_names")  # the same enum name stands for several values (as in many fuse files)
    if any(r["reset"] or any(f["reset"] for f in r["fields"]) for r in layout["regs"]):
        o.label("nonzero_reset")
    if any(r["hidden"] for r in layout["regs"]):
        o.label("reserved_register")
    o.label("endian:" + layout["endian"], "fuse" if layout["fuse"] else "plain_registers")
    o.label("maxwidth:%d" % max([r["width"] for r in layout["regs"]] + [g.width for g in run.m.groups]))
    o.nontrivial(run.nontrivial)
    lay_digest = hashlib.sha256(json.dumps(layout, sort_keys=True).encode()).hexdigest()[:12]
    o.key((lay_digest, tuple(sorted(run.names.items()))))
    o.sample({"layout": {"endian": layout["endian"], "fuse": layout["fuse"],
                         "regs": ["%s:%db:%df" % (r["name"], r["width"], len(r["fields"])) for r in layout["regs"]],
                         "groups": [{k: v for k, v in g.items() if v} for g in layout["groups"]]},
              "ops": [op["op"] for op in case["ops"]]})


def _db_case():
    cat = _db_catalog()
    length = st.tuples(st.integers(1, _MAX_STEPS), st.integers(1, _MAX_STEPS)).map(max)
    ops = length.flatmap(lambda n: st.lists(_op(), min_size=n, max_size=n))
    return st.fixed_dictionaries({"db": st.sampled_from(cat), "ops": ops})


def parts(ctx):
    out = [HypPart("history", _case(), run_history, {"quick": 3000, "thorough": 300000}, stateful_steps=_MAX_STEPS)]
    if _db_catalog():
        out.append(HypPart("db_history", _db_case, run_db_history, {"quick": 200, "thorough": 16000}, stateful_steps=_MAX_STEPS))
    return out


def calibrate(ctx) -> None:
    """The model must reproduce the worked examples of the repository's own documentation/tests of grouped registers
    (tests/utils/test_registers.py: test_basic_grouped_register*, test_regs) - constants copied, nothing is executed from there."""
    from vf.core import HarnessError

    def grp(n, **kw):
        lay = {"endian": "little", "fuse": False, "regs": [{"name": "M%d" % i, "uid": "m%d" % i, "offset": 4 * i, "width": 32, "fields": []} for i in range(n)],
               "groups": [dict({"name": "G", "uid": "g", "subs": list(range(n))}, **kw)]}
        m = MFile(lay)
        return m, m.groups[0]

    def members(m):
        return [r.value for r in m.regs]

    v = 0x01020304_11121314_21222324_31323334
    m, g = grp(4)
    g.write(v, raw=False)
    ok = members(m) == [0x31323334, 0x21222324, 0x11121314, 0x01020304] and g.read(False) == v
    m, g = grp(4, reversed=True)
    g.write(v, raw=False)
    ok = ok and members(m) == [0x04030201, 0x14131211, 0x24232221, 0x34333231] and g.read(False) == v
    ok = ok and g.read(True).to_bytes(16, "big") == bytes.fromhex("34333231242322211413121104030201")
    w = 0xCCDDEEFF8899AABB4455667700112233
    plain = [0x00112233, 0x44556677, 0x8899AABB, 0xCCDDEEFF]
    swapped = [0x33221100, 0x77665544, 0xBBAA9988, 0xFFEEDDCC]
    m, g = grp(8, width=256)
    g.write(w, raw=False)
    ok = ok and members(m)[:4] == plain and g.read(False) == w
    m, g = grp(8, width=256, rev_order=True)
    g.write(w, raw=False)
    ok = ok and members(m)[4:] == plain[::-1] and g.read(False) == w
    m, g = grp(8, width=256, reversed=True)
    g.write(w, raw=False)
    ok = ok and members(m)[4:] == swapped[::-1] and g.read(False) == w
    g.write(w, raw=True)
    ok = ok and members(m)[:4] == plain and g.read(True) == w
    m, g = grp(8, width=256, reversed=True, rev_order=True)
    g.write(w, raw=False)
    ok = ok and members(m)[:4] == swapped and g.read(False) == w
    g.write(w, raw=True)
    ok = ok and members(m)[4:] == plain[::-1] and g.read(True) == w
    # bit-field arithmetic and the SHIFT_RIGHT processor (pfr: IPED start address, upper 24 bits of a 32-bit address)
    lay = {"endian": "little", "fuse": False, "groups": [], "regs": [{"name": "R", "uid": "r", "offset": 0, "width": 32, "reset": 0x500, "fields": [
        {"name": "A", "uid": "a", "off": 0, "width": 4}, {"name": None, "uid": "", "off": 4, "width": 4},
        {"name": "B", "uid": "b", "off": 8, "width": 24, "shift": 8, "enums": [["X", 0x500]]}]}]}
    m = MFile(lay)
    r = m.regs[0]
    ok = ok and r.fields[2].read() == 0x500 and r.fields[2].enum_name() == "X"
    r.fields[2].write(0x12345678)
    r.fields[0].write(0xF)
    ok = ok and r.value == 0x1234560F and r.fields[2].read() == 0x12345600 and m.export() == bytes.fromhex("0f563412")
    for bad in (16, -1):
        try:
            r.fields[0].write(bad)
            ok = False
        except Reject:
            pass
    if not ok:
        raise HarnessError("C11 register model does not reproduce the documented examples")


def extra_coverage(ctx, rec) -> dict:
    return {"db_layouts_in_catalog": len(_CATALOG), "db_layouts_left_out": dict(sorted(_CATALOG_SKIPPED.items()))}
