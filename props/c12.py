"""C12 - per-device configuration areas: template, config and binary round trip (DESIGN.md section 4, C12).

Quantifier domain: every (device, revision, area, sub-feature / memory type) that spsdk/data defines, enumerated by
vf/gen/dbenum.py (own YAML walk).  The layout of every area is read from the register specification files by
vf/ref/regspec.py (own JSON walk) and is the oracle for sizes, bit positions, computed fields and read-back.
"""
from __future__ import annotations

import hashlib
import os
import random
import struct

from hypothesis import strategies as st

from vf.core import EnumPart, HarnessError, HypPart, Oracle, SkipCase
from vf.gen import dbenum
from vf.ref import crc as RC
from vf.ref import regspec

ID = "C12"
LEVEL = "exploration"
TECHNIQUE = (
    "exhaustive enumeration of the device database (own YAML/JSON walk) for defaults and templates + Hypothesis-chosen "
    "in-range register / bit-field values; round-trip and metamorphic oracles plus an independent bit-level layout model "
    "of every register specification"
)
LEVEL_TEXT = (
    "exploration with the (device, revision, area, sub-feature) domain enumerated completely: for every tuple the template, "
    "default export, parse, re-export and configuration round trips are evaluated; register values are sampled (seeded "
    "assignments to every writable field of a chosen number of registers). A pass means no counterexample on every tuple of "
    "the database and on the sampled value assignments; it is not a proof over all register values"
)
RULE = (
    "part 'defaults': one case per (device, revision, area, sub) tuple of the database, all of them (distinct by "
    "construction, every tuple counts). part 'values': (tuple chosen area-first, number of registers k, start index, value "
    "mode in {random, max, min, walking one}, spelling mode, seed); the assignment is a deterministic function of the case; "
    "non-trivial = at least one assigned field differs from the area's default binary; distinct by (register spec file, "
    "grouping, case digest)"
)
ASSUMPTIONS = [
    "register specification JSON: bit-fields are listed from bit 0 upwards, position = sum of preceding widths; registers are "
    "little-endian integers of reg_width/8 bytes at offset_int (this is how every ROM structure in the database is described)",
    "device records are composed as spsdk/data/readme.md documents (defaults <- device <- revision, alias devices copy the origin)",
    "YAML templates are read back with PyYAML's safe loader (libyaml build of the same YAML 1.1 loader SPSDK's load_configuration uses)",
    "fields owned by the code are not assigned: PFR computed fields, tags (BCA TAG, FCB tag), the XMCD header, read-only fields, reserved registers",
    "registers with computed fields are always configured through their bit-fields (the whole-value form documents that it skips the computation)",
    "grouped registers: 'reversed' hex-string groups hold the byte string in memory order; plain groups compose sub-register i at bits [i*w, (i+1)*w); "
    "groups that are reversed *and* have reversed sub-register order (fuses only) are checked by round trip only",
    "memcfg: the configuration round trip is compared on the active option words (option_words), the binary round trip on the full export",
    "fuses have no binary form: read-back is taken from the generated blhost/nxpele fuse script (index and value per fuse word) and the configuration",
    "ROTKH from keys is C03's subject; here only 'export(rotkh=...)' placement and the RSA (cert block v1) table hash are checked",
    "value cases are not generated for specifications that contain registers whose width is not a multiple of 8 bits (KW45-class fuse maps): "
    "SPSDK's register model cannot hold them, which the defaults part reports as its own finding (registers_loaded)",
    "whole-register values only use bits that belong to an individually addressable bit-field (bits outside every bit-field, and bit-fields "
    "sharing one name inside a register, cannot be expressed by a configuration and keep their defaults)",
    "quick tier: tuples that share specification file, grouping and record with a tuple of smaller index run the light chain "
    "(template, schema, load, export, size, parse, re-export, one configuration round trip); the full chain runs once per class, and for every tuple in the thorough tier",
]
FLOORS = {"step:defaults": 0.02, "step:values": 0.05, "nondefault": 0.04, "form:enum_name": 0.005, "form:bitfields": 0.025}

BUDGET = {"quick": 360.0}  # 1100 enumerated tuples plus three full assignments per specification class
AREAS = ("pfr", "ifr", "bca", "fcf", "fcb", "xmcd", "tz", "fuses", "memcfg")
_PFR_SIZES = {"cmpa": 512, "cfpa": 512}
_FILL = {"pfr": 0x00, "ifr": 0xFF}

_S: dict = {}  # state built once in parts() (parent process), inherited by forked workers


# ====================================================================== model
class Group:
    def __init__(self, g: dict, regs_by_uid: dict) -> None:
        self.name = g["name"]
        self.uid = g["uid"]
        self.sub_uids = list(g["sub_regs"])
        self.subs = [regs_by_uid[u] for u in self.sub_uids if u in regs_by_uid]
        self.reversed = str(g.get("reversed", False)).lower() in ("true", "1")
        self.hexstring = bool(g.get("config_as_hexstring", False))
        self.rso = bool(g.get("reverse_subregs_order", False))
        self.alt = [int(a) for a in (g.get("alternative_widths") or [])]
        self.sub_width = self.subs[0].width if self.subs else 32
        self.width = regspec.to_int(g.get("width"), 0) or sum(r.width for r in self.subs)
        self.access = str(g.get("access", "RW")).replace("/", "").upper()
        self.complete = len(self.subs) == len(self.sub_uids) and self.width == sum(r.width for r in self.subs)
        self.contiguous = all(b.offset == a.offset + a.nbytes for a, b in zip(self.subs, self.subs[1:]))

    @property
    def offset(self) -> int:
        return self.subs[0].offset


class Model:
    """Independent description of one area tuple."""

    def __init__(self, db, t: dict) -> None:
        self.t = t
        self.area, self.sub, self.dev, self.rev = t["area"], t["sub"], t["dev"], t["rev"]
        rec = dbenum.area_record(db, t)
        self.rec = rec
        self.regs: list = []
        self.groups: list = []
        self.presets: dict = {}
        self.spec_key = ""
        self.problems: list = []
        self.header_bytes = 0
        self.fill = _FILL.get(self.area, 0x00)
        feats = db.devices[self.dev].revisions[self.rev]
        if self.area == "tz":
            path = db.resolve_file(self.dev, rec["reg_spec"])
            if path is None:
                raise HarnessError("missing TZ preset file %s for %s" % (rec["reg_spec"], t))
            self.spec_key = path
            self.presets = _load_tz(path)
            self.size = 4 * len(self.presets)
            self.class_key = (self.area, self.spec_key)
            return
        path = db.resolve_file(self.dev, rec["reg_spec"])
        if path is None:
            raise HarnessError("missing register spec %s for %s" % (rec["reg_spec"], t))
        self.spec_key = path
        regs = [_copy_reg(r) for r in _spec(path)]
        if self.area == "xmcd":
            hpath = db.resolve_file(self.dev, feats["xmcd"]["header"]["reg_spec"])
            hdr = [_copy_reg(r) for r in _spec(hpath)]
            self.header_bytes = max(r.offset + r.nbytes for r in hdr)
            for r in regs:
                r.offset += self.header_bytes
            self.header_regs = hdr
            regs = hdr + regs
            self.spec_key = hpath + "+" + path
        self.regs = regs
        by_uid: dict = {}
        for r in regs:
            by_uid.setdefault(r.uid, r)
        for g in rec.get("grouped_registers") or []:
            self.groups.append(Group(g, by_uid))
        self.spec_key += "|" + repr([(g.name, g.sub_uids, g.reversed, g.rso, g.alt) for g in self.groups])
        self.group_of = {}
        for g in self.groups:
            for r in g.subs:
                self.group_of[id(r)] = g
        self.computed = rec.get("computed_fields") or {}
        # the specification files mark calculated bit-fields themselves ("calculated": "INVERSE")
        self.spec_calculated = set()
        for r in regs:
            for b, raw in zip(r.bitfields, r.raw.get("bitfields", []) or []):
                if "calculated" in raw:
                    self.spec_calculated.add((r.uid, b.uid))
        self.problems = regspec.layout_problems(regs, check_overlap=self.area != "fuses")
        self.span = max((r.offset + max(1, r.width // 8) for r in regs), default=0)
        self.clean = not [p for p in self.problems if not p.startswith(("bitfield_offset_mismatch", "overlap_reserved"))]
        if self.area == "pfr":
            self.size = regspec.to_int(rec.get("size"), 0) or _PFR_SIZES.get(self.sub)
        elif self.area == "ifr":
            self.size = None  # not in the database; checked to be >= span and stable
        elif self.area == "fuses":
            self.size = None
        else:
            self.size = self.span
        self.seal = None
        if self.area == "pfr" and rec.get("seal_start") and rec.get("seal_count"):
            r = by_uid.get(rec["seal_start"])
            if r is not None:
                self.seal = (r.offset, regspec.to_int(rec["seal_count"]))
        self.ow_rule = rec.get("ow_counts_rule") if self.area == "memcfg" else None
        extra = repr(sorted((k, repr(v)) for k, v in rec.items() if k not in ("grouped_registers", "address", "instances", "region_number")))
        self.class_key = (self.area, self.sub if self.area != "memcfg" else self.sub.split("/")[0], self.spec_key, extra)

    # -------------------------------------------------------------- helpers
    def visible(self) -> list:
        return [r for r in self.regs if not r.reserved]

    def computed_bf(self, reg) -> dict:
        """{bit-field uid: method} of computed fields of a register."""
        return dict(self.computed.get(reg.uid) or {})

    def owned(self, reg, bf=None) -> bool:
        """Fields the code owns (never assigned by the generator)."""
        a = self.area
        if a == "bca" and reg.name == "TAG":
            return True
        if a == "fcb" and reg.name.lower() == "tag":
            return True
        if a == "xmcd" and reg.offset < self.header_bytes:
            return True
        if a == "xmcd" and bf is not None and bf.name == "tag":
            return True
        if bf is not None and bf.uid in self.computed_bf(reg):
            return True
        return False


_SPEC_CACHE: dict = {}
_TZ_CACHE: dict = {}


def _spec(path: str) -> list:
    if path not in _SPEC_CACHE:
        _SPEC_CACHE[path] = regspec.load_spec(path)
    return _SPEC_CACHE[path]


def _copy_reg(r):
    return regspec.Reg(r.name, r.uid, r.offset, r.width, r.reset, r.access, r.reserved, r.bitfields, r.raw)


def _yaml_load(text: str):
    import yaml

    loader = getattr(yaml, "CSafeLoader", yaml.SafeLoader)
    return yaml.load(text, Loader=loader)  # noqa: S506 - safe loader


def _load_tz(path: str) -> dict:
    if path not in _TZ_CACHE:
        with open(path, encoding="utf-8") as f:
            data = _yaml_load(f.read())
        _TZ_CACHE[path] = {str(k): regspec.to_int(v) for k, v in data.items()}
    return _TZ_CACHE[path]


def _model(t: dict) -> Model:
    key = (t["dev"], t["rev"], t["area"], t["sub"])
    cache = _S.setdefault("models", {})
    if key not in cache:
        cache[key] = Model(_state()["db"], t)
    return cache[key]


def _state() -> dict:
    if "db" not in _S:
        db = dbenum.load()
        if db.errors:
            raise HarnessError("device database could not be composed: %s" % db.errors[:3])
        _S["db"] = db
        _S["tuples"] = dbenum.config_area_tuples(db)
        only = os.environ.get("VERIF_C12_AREAS")  # development knob (mutation audit): restrict the domain to some areas
        if only:
            _S["tuples"] = [t for t in _S["tuples"] if t["area"] in only.split(",")]
        by_area: dict = {}
        for t in _S["tuples"]:
            by_area.setdefault(t["area"], []).append(t)
        _S["by_area"] = by_area
    return _S


# ====================================================================== adapters (the only place that names SPSDK APIs)
class Adapter:
    settings_key = "settings"
    has_diff = False
    has_binary = True

    def __init__(self, m: Model) -> None:
        self.m = m
        self.dev, self.rev, self.sub = m.dev, m.rev, m.sub

    def base_cfg(self) -> dict:
        return {"family": self.dev, "revision": self.rev}

    def cfg_with(self, settings: dict) -> dict:
        c = self.base_cfg()
        c[self.settings_key] = settings
        return c

    def yaml_config(self, obj):
        return None

    def verify(self, obj):
        return None

    def regs_obj(self, obj):
        return obj.registers


class PfrAdapter(Adapter):
    has_diff = True

    def cls(self):
        from spsdk.pfr.pfr import CONFIG_AREA_CLASSES

        return CONFIG_AREA_CLASSES[self.sub]

    def base_cfg(self):
        return {"family": self.dev, "revision": self.rev, "type": self.sub.upper()}

    def schemas(self):
        return self.cls().get_validation_schemas(self.dev, self.rev)

    def template(self):
        from spsdk.utils.schema_validator import CommentedConfig

        return CommentedConfig("PFR %s configuration template" % self.sub.upper(), self.schemas()).get_template()

    def new(self):
        return self.cls()(self.dev, self.rev)

    def load(self, cfg):
        from spsdk.pfr.pfr import BaseConfigArea

        return BaseConfigArea.load_from_config(cfg)

    def export(self, obj):
        return obj.export(draw=False)

    def parse(self, data):
        o = self.new()
        o.parse(data)
        return o

    def get_config(self, obj, diff=False):
        return obj.get_config(diff=diff)

    def yaml_config(self, obj):
        from spsdk.utils.schema_validator import CommentedConfig

        return CommentedConfig("parsed", schemas=self.schemas()).get_config(obj.get_config())


class SegAdapter(Adapter):
    """BCA / FCF."""

    def cls(self):
        if self.m.area == "bca":
            from spsdk.image.bca.bca import BCA

            return BCA
        from spsdk.image.fcf.fcf import FCF

        return FCF

    @property
    def settings_key(self):  # type: ignore[override]
        return self.m.area

    def schemas(self):
        return self.cls().get_validation_schemas(self.dev, self.rev)

    def template(self):
        return self.cls().generate_config_template(self.dev, self.rev)

    def new(self):
        return self.cls()(self.dev, self.rev)

    def load(self, cfg):
        return self.cls().load_from_config(cfg)

    def export(self, obj):
        return obj.export()

    def parse(self, data):
        return self.cls().parse(data, family=self.dev, revision=self.rev)

    def get_config(self, obj, diff=False):
        return obj.get_config()

    def yaml_config(self, obj):
        return obj.create_config()


class FcbAdapter(Adapter):
    settings_key = "fcb_settings"

    def mt(self):
        from spsdk.image.mem_type import MemoryType

        return MemoryType.from_label(self.sub)

    def base_cfg(self):
        return {"family": self.dev, "revision": self.rev, "type": self.sub}

    def schemas(self):
        from spsdk.image.fcb.fcb import FCB

        return FCB.get_validation_schemas(self.dev, self.mt(), self.rev)

    def template(self):
        from spsdk.image.fcb.fcb import FCB

        return FCB.generate_config_template(self.dev, self.mt(), self.rev)

    def new(self):
        from spsdk.image.fcb.fcb import FCB

        return FCB(self.dev, self.mt(), self.rev)

    def load(self, cfg):
        from spsdk.image.fcb.fcb import FCB

        return FCB.load_from_config(cfg)

    def export(self, obj):
        return obj.export()

    def parse(self, data):
        from spsdk.image.fcb.fcb import FCB

        return FCB.parse(data, family=self.dev, mem_type=self.mt(), revision=self.rev)

    def get_config(self, obj, diff=False):
        c = self.base_cfg()  # the dictionary create_config() renders as YAML
        c["fcb_settings"] = obj.registers.get_config()
        return c

    def yaml_config(self, obj):
        return obj.create_config()


class XmcdAdapter(Adapter):
    settings_key = "xmcd_settings"

    def types(self):
        from spsdk.image.mem_type import MemoryType
        from spsdk.image.xmcd.xmcd import ConfigurationBlockType

        mt, ct = self.sub.split("/")
        return MemoryType.from_label(mt), ConfigurationBlockType.from_label(ct)

    def base_cfg(self):
        mt, ct = self.sub.split("/")
        return {"family": self.dev, "revision": self.rev, "mem_type": mt, "config_type": ct}

    def cfg_with(self, settings):
        c = self.base_cfg()
        s = dict(settings)
        if "header" not in s:
            key = ("xmcd_header", self.dev, self.rev, self.sub)
            if key not in _S:
                _S[key] = self.new().registers.get_config()["header"]
            s["header"] = dict(_S[key])
        c["xmcd_settings"] = s
        return c

    def schemas(self):
        from spsdk.image.xmcd.xmcd import XMCD

        mt, ct = self.types()
        return XMCD.get_validation_schemas(self.dev, mt, ct, self.rev)

    def template(self):
        from spsdk.image.xmcd.xmcd import XMCD

        mt, ct = self.types()
        return XMCD.generate_config_template(self.dev, mt, ct, self.rev)

    def new(self):
        from spsdk.image.xmcd.xmcd import XMCD

        mt, ct = self.types()
        return XMCD(self.dev, mt, ct, self.rev)

    def load(self, cfg):
        from spsdk.image.xmcd.xmcd import XMCD
        import copy

        return XMCD.load_from_config(copy.deepcopy(cfg))  # load_from_config pops 'header' from its argument

    def export(self, obj):
        return obj.export()

    def parse(self, data):
        from spsdk.image.xmcd.xmcd import XMCD

        return XMCD.parse(data, family=self.dev, revision=self.rev)

    def get_config(self, obj, diff=False):
        c = self.base_cfg()  # the dictionary create_config() renders as YAML
        c["xmcd_settings"] = obj.registers.get_config()
        return c

    def yaml_config(self, obj):
        return obj.create_config()

    def verify(self, obj):
        v = obj.verify()
        return v.draw(colorize=False) if v.has_errors else ""


class TzAdapter(Adapter):
    settings_key = "trustZonePreset"

    def schemas(self):
        from spsdk.image.trustzone import TrustZone

        return TrustZone.get_validation_schemas(self.dev, self.rev)

    def template(self):
        from spsdk.image.trustzone import TrustZone

        t = TrustZone.generate_config_template(self.dev, self.rev)
        if len(t) != 1:
            raise ValueError("expected one TZ template, got %r" % list(t))
        return list(t.values())[0]

    def new(self):
        from spsdk.image.trustzone import TrustZone

        return TrustZone.custom(self.dev, {}, self.rev)

    def load(self, cfg):
        from spsdk.image.trustzone import TrustZone

        return TrustZone.from_config(cfg)

    def export(self, obj):
        return obj.export()

    def parse(self, data):
        from spsdk.image.trustzone import TrustZone

        return TrustZone.from_binary(self.dev, data, self.rev)

    def get_config(self, obj, diff=False):
        c = self.base_cfg()
        c["trustZonePreset"] = dict(obj.customs or {})
        return c

    def regs_obj(self, obj):
        return None


class FusesAdapter(Adapter):
    settings_key = "registers"
    has_diff = True
    has_binary = False

    def schemas(self):
        from spsdk.fuses.fuses import Fuses

        return Fuses.get_validation_schemas(self.dev, self.rev)

    def template(self):
        from spsdk.fuses.fuses import Fuses

        return Fuses.generate_config_template(self.dev, self.rev)

    def new(self):
        from spsdk.fuses.fuses import Fuses

        return Fuses(self.dev, self.rev)

    def load(self, cfg):
        from spsdk.fuses.fuses import Fuses

        return Fuses.load_from_config(cfg)

    def get_config(self, obj, diff=False):
        return obj.get_config(diff=diff)

    def regs_obj(self, obj):
        return obj.fuse_regs


class MemcfgAdapter(Adapter):
    def pi(self):
        return self.sub.split("/")

    def base_cfg(self):
        p, i = self.pi()
        return {"family": self.dev, "revision": self.rev, "peripheral": p, "interface": i}

    def new(self):
        from spsdk.memcfg.memcfg import MemoryConfig

        p, i = self.pi()
        return MemoryConfig(self.dev, p, self.rev, i)

    def schemas(self):
        return self.new().get_validation_schemas()

    def template(self):
        from spsdk.utils.registers import Registers
        from spsdk.utils.schema_validator import CommentedConfig

        p, _ = self.pi()
        return CommentedConfig(
            main_title="Option Words Configuration template for %s, %s." % (self.dev, p),
            schemas=self.schemas(),
            note="Note for settings:\n" + Registers.TEMPLATE_NOTE,
        ).get_template()

    def load(self, cfg):
        from spsdk.memcfg.memcfg import MemoryConfig

        return MemoryConfig.load_config(cfg)

    def export(self, obj):
        return obj.export()

    def parse(self, data):
        from spsdk.memcfg.memcfg import MemoryConfig

        p, i = self.pi()
        return MemoryConfig.parse(data, self.dev, p, self.rev, i)

    def get_config(self, obj, diff=False):
        return obj.get_config()

    def yaml_config(self, obj):
        return obj.get_yaml()

    def regs_obj(self, obj):
        return obj.regs


_ADAPTERS = {"pfr": PfrAdapter, "ifr": PfrAdapter, "bca": SegAdapter, "fcf": SegAdapter, "fcb": FcbAdapter,
             "xmcd": XmcdAdapter, "tz": TzAdapter, "fuses": FusesAdapter, "memcfg": MemcfgAdapter}


def _adapter(m: Model) -> Adapter:
    return _ADAPTERS[m.area](m)


# ====================================================================== independent computations
def _inverse_high_half_ok(v: int) -> bool:
    return (v >> 16) & 0xFFFF == (~v) & 0xFFFF


def _inverse_lower8_ok(v: int) -> bool:
    return (v >> 8) & 0xFF == (~v) & 0xFF


_COMPUTED = {"pfr_reg_inverse_high_half": _inverse_high_half_ok, "pfr_reg_inverse_lower_8_bits": _inverse_lower8_ok}


def _check_computed(m: Model, data: bytes, reg_names, o: Oracle, what: str) -> int:
    """Inverse fields of every register named in the loaded configuration, recomputed from the binary."""
    n = 0
    for r in m.regs:
        comp = m.computed_bf(r)
        if not comp or (reg_names is not None and r.name not in reg_names):
            continue
        v = regspec.reg_int(data, r.offset, r.nbytes)
        for bf_uid, method in comp.items():
            fn = _COMPUTED.get(method)
            if fn is None:
                raise HarnessError("unknown computed-field method %s in the database" % method)
            n += 1
            o.check("computed", fn(v), "%s:%s" % (what, method), "%s %s: register %s = 0x%08x" % (m.t, bf_uid, r.name, v))
    return n


def _memcfg_count(m: Model, data: bytes) -> int:
    regs = m.visible()
    first = regs[0]
    rule = m.ow_rule
    if rule == "All":
        return len(regs)
    if rule == "OptionSize":
        bf = next((b for b in first.bitfields if b.name == "OptionSize"), None)
        if bf is None:
            return -1
        return min(len(regs), 1 + regspec.field_bits(data, first.offset, first.nbytes, bf.offset, bf.width))
    if rule == "AcTimingMode":
        bf = next((b for b in first.bitfields if b.name == "AcTimingMode"), None)
        if bf is None:
            return -1
        v = regspec.field_bits(data, first.offset, first.nbytes, bf.offset, bf.width)
        return len(regs) if ("UserDefined", v) in bf.enums else 1
    return -1


def _xmcd_present(m: Model, settings_bits) -> list:
    """Registers of the XMCD binary that exist: configOption1 only when optionSize != 0 (documented in xmcd.py)."""
    regs = list(m.regs)
    co0 = next((r for r in regs if r.name == "configOption0"), None)
    co1 = next((r for r in regs if r.name == "configOption1"), None)
    if co0 is not None and co1 is not None:
        bf = next((b for b in co0.bitfields if b.name == "optionSize"), None)
        if bf is not None and settings_bits(co0, bf) == 0:
            regs.remove(co1)
    return regs


# ====================================================================== step 1: defaults / templates
def _tuples_count(tier: str) -> int:
    return len(_state()["tuples"])


def _tuples_item(tier: str, i: int):
    return dict(_state()["tuples"][i])


def _settings_of(m: Model, cfg: dict):
    ad = _adapter(m)
    s = cfg.get(ad.settings_key) if isinstance(cfg, dict) else None
    return s if isinstance(s, dict) else {}


def run_defaults(case, o: Oracle) -> None:
    t = {k: case[k] for k in ("dev", "rev", "area", "sub")}
    try:
        m = _model(t)
    except KeyError:
        raise HarnessError("tuple %s is not in the database under test" % t)
    ad = _adapter(m)
    area = m.area
    # 'full' = everything; 'light' (quick tier, tuples whose specification/grouping was already taken by a smaller
    # tuple index) = template, schema, load, export, size, parse, verify, re-export, one configuration round trip
    if "full" in case:
        full = bool(case["full"])
    else:
        full = _S.get("tier") != "quick" or _S.get("repr", {}).get(m.class_key) in (None, (m.dev, m.rev, m.sub))
    o.label("step:defaults", "area:" + area, "sub:%s/%s" % (area, m.sub if area != "memcfg" else m.sub.split("/")[0]), "depth:full" if full else "depth:light")
    if m.problems:
        o.label("spec_irregular")
        for kind in sorted({p.split(":")[0] for p in m.problems}):
            o.label("spec:" + kind)
    o.nontrivial(True)
    o.key(("defaults", m.dev, m.rev, area, m.sub))
    o.sample({"tuple": t, "registers": len(m.regs) or len(m.presets), "size": m.size})

    # ---------------- (a) template is valid YAML, validates, loads
    tpl = cfg = obj = None
    with o.spsdk("template_generate"):
        tpl = ad.template()
    if tpl is not None:
        if not isinstance(tpl, str) or not tpl.strip():
            o.fail("template_generate", "empty", "template for %s is %r" % (t, tpl))
            tpl = None
    if tpl is not None:
        try:
            cfg = _yaml_load(tpl)
            if not isinstance(cfg, dict):
                o.fail("template_yaml", "not_a_mapping", "template of %s loads as %s" % (t, type(cfg).__name__))
                cfg = None
        except Exception as exc:  # noqa: BLE001 - YAML error = the template is not valid YAML
            o.fail("template_yaml", "invalid_yaml:%s" % type(exc).__name__, "%s: %s" % (t, str(exc)[:400]))
    if cfg is not None:
        o.check("template_yaml", cfg.get("family") == m.dev and str(cfg.get("revision")) in (m.rev, "latest"), "family_revision",
                "%s: template says family=%r revision=%r" % (t, cfg.get("family"), cfg.get("revision")))
        if area not in ("fuses", "xmcd"):  # these two validate inside load_from_config (same schemas)
            with o.spsdk("template_schema"):
                from spsdk.utils.schema_validator import check_config

                check_config(cfg, ad.schemas())
        with o.spsdk("template_load" if area not in ("fuses", "xmcd") else "template_schema_load"):
            obj = ad.load(cfg)
        # every non-reserved register of the specification is offered by the template
        sett = _settings_of(m, cfg)
        if area != "tz":
            missing = [r.name for r in m.visible() if id(r) not in m.group_of and r.name not in sett]
            if area == "xmcd":
                missing = [n for n in missing if n != "configOption1"]
            o.check("registers_loaded", not missing, "template_misses_registers",
                    "%s: %d of %d specified registers are not in the template, e.g. %s" % (t, len(missing), len(m.visible()), missing[:5]))
        else:
            o.check("registers_loaded", list(sett.keys()) == list(m.presets.keys()), "template_presets",
                    "%s: template presets differ from the preset file (%d vs %d)" % (t, len(sett), len(m.presets)))

    for g in m.groups:
        if not g.complete:
            # e.g. mcxn946 a0: the specification of the old revision has one word where the shared group definition names twelve
            o.label("spec:group_incomplete")

    # ---------------- the database's computed fields and the specification's own 'calculated' marks
    if area in ("pfr", "ifr") and m.computed:
        declared = {(ru, bu) for ru, fs in m.computed.items() for bu in fs}
        o.check("computed", m.spec_calculated <= declared, "declared_incomplete",
                "%s: the specification marks %s as calculated, the database computes only %s" % (t, sorted(m.spec_calculated - declared)[:4], sorted(declared)[:6]))
        o.label("computed_declared")

    # ---------------- registers of the object are those of the specification
    fresh = None
    if full or obj is None:
        with o.spsdk("construct"):
            fresh = ad.new()
    probe = fresh if fresh is not None else obj
    if probe is not None and area != "tz" and (full or area != "xmcd"):  # XMCD.registers deep-copies the database on every access
        with o.spsdk("registers_loaded"):
            _check_registers_loaded(m, ad.regs_obj(probe), o)

    if not ad.has_binary:
        _defaults_fuses(m, ad, obj, fresh, cfg, o, full)
        return

    # ---------------- (b) size, parse, verify ; (c) re-export ; (d) config round trips
    done: dict = {}
    for name, x in (("template", obj), ("fresh", fresh)):
        if x is None:
            continue
        data = None
        with o.spsdk("export", name):
            data = ad.export(x)
        if data is None:
            continue
        if m.size is not None:
            o.check("export_size", len(data) == m.size, name, "%s: %d bytes exported, database/specification says %d" % (t, len(data), m.size))
        else:
            o.check("export_size", len(data) >= m.span, name, "%s: %d bytes exported, registers span %d" % (t, len(data), m.span))
        if area == "tz":
            want = b"".join(struct.pack("<I", v & 0xFFFFFFFF) for v in m.presets.values())
            o.check("readback", data == want, "tz_defaults:" + name, "%s: default export differs from the preset file" % (t,))
        if name == "template" and cfg is not None and area not in ("tz",) and m.clean:
            _template_readback(m, _settings_of(m, cfg), data, o)
        if data in done:
            continue  # same bytes as the template-loaded object: the chain below is a function of the bytes
        done[data] = name
        parsed = None
        with o.spsdk("parse_accepts", name):
            parsed = ad.parse(data)
        if parsed is None:
            continue
        if full or area != "xmcd":
            with o.spsdk("verify", name):
                msg = ad.verify(parsed)
                if msg:
                    o.fail("verify", "errors:" + name, "%s: verifier rejects own export: %s" % (t, msg[:300]))
        with o.spsdk("reexport", name):
            again = ad.export(parsed)
            o.check("reexport", again == data, name, "%s: export(parse(b)) != b (%s)" % (t, _diff(data, again)))
        if area == "xmcd":
            with o.spsdk("computed", "xmcd_crc"):
                if full:
                    o.eq("computed", "xmcd_crc:" + name, parsed.crc, RC.crc32_mpeg2(data).to_bytes(4, "big"))
                o.check("export_size", parsed.header.xmcd_size == len(data), "xmcd_header_size:" + name,
                        "%s: header says %d bytes, binary has %d" % (t, parsed.header.xmcd_size, len(data)))
                _check_xmcd_header(m, data, o, name)
        if area == "memcfg":
            _memcfg_words(m, parsed, data, o, name)
        if area in ("pfr", "ifr") and name == "fresh":
            continue  # a never-configured PFR page has no computed fields yet: its configuration is not expected to reproduce it
        if full or area != "xmcd":
            _config_roundtrips(m, ad, parsed, data, o, name, full)
    # ---------------- (e) computed fields of the template-loaded binary, seal, ROTKH placement
    if area == "pfr" and obj is not None:
        with o.spsdk("computed", "export"):
            data = ad.export(obj)
            _check_computed(m, data, None, o, "template")
            if full:
                _pfr_seal_and_rotkh(m, obj, data, o)


def _template_readback(m: Model, sett: dict, data: bytes, o: Oracle) -> None:
    """The values the template shows are the values of the binary exported from it (bit positions from the specification)."""
    for r in m.regs:
        if r.reserved or r.name not in sett or id(r) in m.group_of or r.offset + r.nbytes > len(data):
            continue
        entry = sett[r.name]
        try:
            if isinstance(entry, dict):
                names = [b.name for b in r.bitfields]
                for b in r.named_bitfields():
                    if b.name in entry and names.count(b.name) == 1 and b.uid not in m.computed_bf(r):
                        want = _cfg_int(entry[b.name], b.enums) >> b.shift
                        got = regspec.field_bits(data, r.offset, r.nbytes, b.offset, b.width)
                        if got != want:
                            o.fail("readback", "template_bitfield", "%s: template shows %s.%s = %r, the binary exported from it holds 0x%x" % (m.t, r.name, b.name, entry[b.name], got))
                            return
            else:
                want = _cfg_int(entry, ())
                got = regspec.reg_int(data, r.offset, r.nbytes)
                if got != want:
                    o.fail("readback", "template_register", "%s: template shows %s = %r, the binary exported from it holds 0x%x" % (m.t, r.name, entry, got))
                    return
        except ValueError:
            o.fail("readback", "template_value_unreadable", "%s: template value of %s is neither a number nor an enumeration name: %r" % (m.t, r.name, entry))
            return


_XMCD_IFACE = {"flexspi_ram": 0, "xspi_ram": 0, "semc_sdram": 1}
_XMCD_TYPE = {"simplified": 0, "full": 1}


def _check_xmcd_header(m: Model, data: bytes, o: Oracle, name: str) -> None:
    """XMCD header word read from the binary with the header specification: tag 0xC, version 0, interface, type, size."""
    h = m.header_regs[0]
    got = {b.name: regspec.field_bits(data, h.offset, h.nbytes, b.offset, b.width) for b in h.named_bitfields()}
    mt, ct = m.sub.split("/")
    want = {"tag": 0xC, "version": 0, "memoryInterface": _XMCD_IFACE[mt], "configurationBlockType": _XMCD_TYPE[ct], "configurationBlockSize": len(data)}
    bad = {k: (got.get(k), v) for k, v in want.items() if got.get(k) != v}
    o.check("computed", not bad, "xmcd_header:" + name, "%s: header fields (got, want): %s" % (m.t, bad))


def _diff(a: bytes, b: bytes) -> str:
    if len(a) != len(b):
        return "lengths %d / %d" % (len(a), len(b))
    idx = [i for i in range(len(a)) if a[i] != b[i]]
    return "%d bytes differ, first at 0x%x: %s / %s" % (len(idx), idx[0], a[idx[0] : idx[0] + 8].hex(), b[idx[0] : idx[0] + 8].hex()) if idx else "equal"


def _check_registers_loaded(m: Model, regs_obj, o: Oracle) -> None:
    """Every register the specification lists is present in the area object (name, offset, width, bit-fields)."""
    from spsdk.exceptions import SPSDKError

    missing, wrong = [], []
    for r in m.regs:
        if r.reserved:
            continue
        try:
            sr = regs_obj.find_reg(r.name, include_group_regs=True)
        except SPSDKError:
            missing.append(r.name)
            continue
        if m.area != "fuses" and m.clean and (sr.offset != r.offset or sr.width != r.width) and id(r) not in m.group_of:
            wrong.append("%s: offset/width %d/%d, specification %d/%d" % (r.name, sr.offset, sr.width, r.offset, r.width))
        have = {b.name for b in sr._bitfields}
        for b in r.named_bitfields():
            if b.name not in have:
                wrong.append("%s.%s missing" % (r.name, b.name))
    for g in m.groups:
        try:
            gr = regs_obj.find_reg(g.name)
            want = [r.uid for r in g.subs]  # the members the specification of this revision really has
            if [s.uid for s in gr.sub_regs] != want:
                wrong.append("group %s has sub-registers %s, database + specification say %s" % (g.name, [s.uid for s in gr.sub_regs][:4], want[:4]))
        except SPSDKError:
            missing.append(g.name)
    o.check("registers_loaded", not missing, "missing_registers",
            "%s: %d of %d specified registers are not loaded, e.g. %s" % (m.t, len(missing), len(m.regs), missing[:5]))
    o.check("registers_loaded", not wrong, "wrong_layout", "%s: %s" % (m.t, wrong[:4]))


def _memcfg_words(m: Model, obj, data: bytes, o: Oracle, name: str) -> None:
    with o.spsdk("readback", "option_words"):
        words = list(obj.option_words)
        cnt = _memcfg_count(m, data)
        if cnt < 0:
            o.fail("readback", "option_words_rule", "%s: rule %r cannot be evaluated on the specification" % (m.t, m.ow_rule))
            return
        regs = m.visible()
        want = [regspec.reg_int(data, r.offset, r.nbytes) for r in regs[:cnt]]
        o.check("readback", words == want, "option_words:" + name, "%s: option words %s, binary says %s" % (m.t, [hex(w) for w in words], [hex(w) for w in want]))


def _same_result(m: Model, ad: Adapter, other, data: bytes) -> str:
    """'' if `other` reproduces `data` (memcfg: the active option words), else a description."""
    if m.area == "memcfg":
        cnt = _memcfg_count(m, data)
        regs = m.visible()
        want = [regspec.reg_int(data, r.offset, r.nbytes) for r in regs[: max(cnt, 0)]]
        got = list(other.option_words)
        return "" if got == want else "option words %s, expected %s" % ([hex(w) for w in got], [hex(w) for w in want])
    again = ad.export(other)
    return "" if again == data else _diff(data, again)


def _config_roundtrips(m: Model, ad: Adapter, parsed, data: bytes, o: Oracle, name: str, full: bool = True):
    t = m.t
    cfg2 = None
    with o.spsdk("config_roundtrip", "dict:" + name):
        cfg2 = ad.get_config(parsed)
        msg = _same_result(m, ad, ad.load(cfg2), data)
        o.check("config_roundtrip", not msg, "dict:" + name, "%s: load(get_config(x)) differs: %s" % (t, msg))
    if not full:
        return cfg2
    if ad.has_diff:
        with o.spsdk("config_roundtrip", "diff:" + name):
            cfg3 = ad.get_config(parsed, diff=True)
            msg = _same_result(m, ad, ad.load(cfg3), data)
            o.check("config_roundtrip", not msg, "diff:" + name, "%s: load(get_config(x, diff=True)) differs: %s" % (t, msg))
    if True:
        with o.spsdk("config_roundtrip", "yaml:" + name):
            text = ad.yaml_config(parsed)
            if text is not None:
                cfg4 = _yaml_load(text)
                msg = _same_result(m, ad, ad.load(cfg4), data)
                o.check("config_roundtrip", not msg, "yaml:" + name, "%s: load(yaml(create_config(x))) differs: %s" % (t, msg))
    return cfg2


def _pfr_seal_and_rotkh(m: Model, obj, data: bytes, o: Oracle) -> None:
    import copy

    t = m.t
    twin = copy.deepcopy(obj)
    sealed = twin.export(add_seal=True, draw=False)
    # the seal is a property of one export, not of the object: the next export without it is the unsealed page again
    again = twin.export(add_seal=False, draw=False)
    o.check("computed", again == data, "seal_sticks", "%s: export() after export(add_seal=True) differs from the export before it (%s)" % (t, _diff(data, again)))
    if m.seal is not None:
        off, cnt = m.seal
        want = bytearray(data)
        want[off : off + 4 * cnt] = b"SEAL" * cnt
        o.check("computed", sealed == bytes(want), "seal", "%s: sealed export differs from unsealed + %d x 'SEAL' at 0x%x (%s)" % (t, cnt, off, _diff(bytes(want), sealed)))
        o.label("seal")
    else:
        o.check("computed", sealed == data, "seal_absent", "%s: no seal in the database, but add_seal changed the binary" % (t,))
    g = next((g for g in m.groups if g.name == "ROTKH"), None)
    if g is not None and g.subs and g.width in (256, 384) and not (g.complete and g.contiguous):
        # the root-of-trust hash is 32 or 48 bytes from the group's first word on, whatever the grouping data say: a
        # ROTKH group that lost a member would otherwise go unnoticed (the whole hash must be in the binary)
        rot = hashlib.sha384(("%s/%s" % (m.dev, m.rev)).encode()).digest()[: g.width // 8]
        got = copy.deepcopy(obj).export(rotkh=rot, draw=False)
        o.check("computed", got[g.offset : g.offset + len(rot)] == rot, "rotkh_truncated",
                "%s: export(rotkh=%d bytes): binary has %s at 0x%x" % (t, len(rot), got[g.offset : g.offset + len(rot)].hex(), g.offset))
    if g is not None and g.complete and g.contiguous:
        rot = hashlib.sha256(("%s/%s" % (m.dev, m.rev)).encode()).digest()
        x = copy.deepcopy(obj)
        got = x.export(rotkh=rot, draw=False)
        want = bytearray(data)
        want[g.offset : g.offset + 32] = rot
        o.check("computed", got == bytes(want), "rotkh_placement", "%s: export(rotkh=R) != binary with R at 0x%x (%s)" % (t, g.offset, _diff(bytes(want), got)))
        o.label("rotkh")
        if g.width == 384:
            # the full-width (SHA-384) value fills the whole field
            rot48 = hashlib.sha384(("%s/%s" % (m.dev, m.rev)).encode()).digest()
            got = copy.deepcopy(obj).export(rotkh=rot48, draw=False)
            want[g.offset : g.offset + 48] = rot48
            o.check("computed", got == bytes(want), "rotkh_placement_384", "%s: export(rotkh=48 bytes) != binary with R at 0x%x (%s)" % (t, g.offset, _diff(bytes(want), got)))
            o.label("rotkh384")
        feats = _state()["db"].devices[m.dev].revisions[m.rev]
        if (feats.get("cert_block") or {}).get("rot_type") == "cert_block_1":
            from vf.gen import keys as K
            from spsdk.crypto.keys import PrivateKeyRsa

            nkeys = 1 + (sum(rot) % 4)
            table = b""
            pubs = []
            for i in range(nkeys):
                priv = K.rsa_key(2048, i)
                nums = priv.public_key().public_numbers()
                nb = nums.n.to_bytes((nums.n.bit_length() + 7) // 8, "big")
                eb = nums.e.to_bytes((nums.e.bit_length() + 7) // 8, "big")
                table += hashlib.sha256(nb + eb).digest()
                pubs.append(PrivateKeyRsa(priv).get_public_key())
            table += bytes(32 * (4 - nkeys))
            rkth = hashlib.sha256(table).digest()
            got = copy.deepcopy(obj).export(keys=pubs, draw=False)
            want[g.offset : g.offset + 32] = rkth
            o.check("computed", got == bytes(want), "rotkh_from_keys", "%s: export(keys=%d RSA keys): ROTKH is not SHA-256 of the key-hash table (%s)" % (t, nkeys, _diff(bytes(want), got)))
            o.label("rotkh_keys")


def _defaults_fuses(m: Model, ad: Adapter, obj, fresh, cfg, o: Oracle, full: bool = True) -> None:
    t = m.t
    for name, x in (("template", obj), ("fresh", fresh)):
        if x is None or (not full and name == "fresh"):
            continue
        if not full:
            with o.spsdk("config_roundtrip", "get_config:" + name):
                ad.get_config(x)
                ad.get_config(x, diff=True)
            continue
        with o.spsdk("config_roundtrip", "dict:" + name):
            c2 = ad.get_config(x)
            y = ad.load(c2)
            c3 = ad.get_config(y)
            o.check("config_roundtrip", c3 == c2, "dict:" + name, "%s: get_config(load(get_config(x))) differs: %s" % (t, _dict_diff(c2, c3)))
            o.check("config_roundtrip", _fuse_values(y) == _fuse_values(x), "dict_values:" + name,
                    "%s: load(get_config(x)) holds other fuse values: %s" % (t, _dict_diff(_fuse_values(x), _fuse_values(y))))
        with o.spsdk("config_roundtrip", "diff:" + name):
            cd = ad.get_config(x, diff=True)
            if cd.get("registers"):
                y = ad.load(cd)
                o.check("config_roundtrip", _fuse_values(y) == _fuse_values(x), "diff:" + name,
                        "%s: diff configuration does not reproduce the values: %s" % (t, _dict_diff(_fuse_values(x), _fuse_values(y))))
    if obj is not None and cfg is not None:
        with o.spsdk("readback", "fuse_script"):
            _check_fuse_script(m, obj, {}, o, "template")


def _dict_diff(a, b, path="") -> str:
    if isinstance(a, dict) and isinstance(b, dict):
        for k in list(a) + [k for k in b if k not in a]:
            if k not in a or k not in b:
                return "%s/%s only on one side" % (path, k)
            d = _dict_diff(a[k], b[k], path + "/" + str(k))
            if d:
                return d
        return ""
    return "" if a == b else "%s: %r != %r" % (path, a, b)


def _parse_fuse_script(text: str) -> dict:
    """{fuse name: (otp index, value)} from a blhost / nxpele fuse script ('# Fuse <name>, index <i> and value: ...' + command)."""
    out: dict = {}
    name = None
    for line in text.splitlines():
        if line.startswith("# Fuse ") and ", index " in line:
            name = line[len("# Fuse ") : line.rindex(", index ")]
            continue
        p = line.split()
        if not p or p[0].startswith("#"):
            continue
        if p[0] == "efuse-program-once":
            out[name] = (int(p[1], 0), int(p[2], 0))
        elif p[0] == "write-fuse":
            out[name] = (int(p[p.index("--index") + 1], 0), int(p[p.index("--data") + 1], 0))
    return out


def _check_fuse_script(m: Model, obj, expect: dict, o: Oracle, name: str) -> None:
    """The fuse script writes every configured fuse word at its OTP index; `expect` = {reg name: (mask, value)}."""
    script = obj.create_fuse_script()
    words = _parse_fuse_script(script)
    tool = m.rec.get("tool", "blhost")
    o.check("readback", ("efuse-program-once" in script) == (tool == "blhost") or not words, "fuse_script_tool", "%s: tool %s" % (m.t, tool))
    for r in m.regs:
        if r.name not in expect:
            continue
        idx = regspec.to_int(r.raw.get("index_int"), -1)
        mask, val = expect[r.name]
        if r.name not in words:
            o.fail("readback", "fuse_script_missing:" + name, "%s: fuse %s (index %d) is configured but not in the script" % (m.t, r.name, idx))
            return
        if words[r.name][0] != idx:
            o.fail("readback", "fuse_script_index:" + name, "%s: fuse %s has index %d, the script writes index %d" % (m.t, r.name, idx, words[r.name][0]))
            return
        if words[r.name][1] & mask != val & mask:
            o.fail("readback", "fuse_script_value:" + name, "%s: fuse %s index %d: script writes 0x%x, configured bits 0x%x under mask 0x%x" % (m.t, r.name, idx, words[r.name][1], val, mask))
            return


# ====================================================================== step 2: values
# share of value cases per area: many distinct layouts -> more cases; XMCD (7 small layouts, seconds per load) -> few
_AREA_WEIGHT = {"pfr": 8, "ifr": 4, "bca": 3, "fcf": 3, "fcb": 4, "xmcd": 1, "tz": 3, "fuses": 3, "memcfg": 5}
MODES = ("random", "random", "random", "max", "min", "walk1")
SPELL = ("mixed", "mixed", "int", "hex", "enum")


def _values_domain(m: Model) -> bool:
    """Tuples whose specification the register model of SPSDK can hold at all (byte-multiple register widths)."""
    return not any(p.startswith("width_not_byte_multiple") for p in m.problems)


def _values_strategy():
    s = _state()
    by_area = {a: [t for t in ts if _values_domain(_model(t))] for a, ts in s["by_area"].items()}
    areas = [a for a in AREAS if by_area.get(a) for _ in range(_AREA_WEIGHT[a])]

    @st.composite
    def build(draw):
        area = draw(st.sampled_from(areas))
        ts = by_area[area]
        t = ts[draw(st.integers(0, len(ts) - 1))]
        return {"dev": t["dev"], "rev": t["rev"], "area": t["area"], "sub": t["sub"],
                "k": draw(st.one_of(st.integers(1, 6), st.integers(1, 400))), "first": draw(st.integers(0, 4000)),
                "mode": draw(st.sampled_from(MODES)), "spell": draw(st.sampled_from(SPELL)),
                "whole": draw(st.integers(0, 3)), "seed": draw(st.integers(0, (1 << 32) - 1))}

    return build()


def _draw_value(rnd: random.Random, width: int, mode: str) -> int:
    top = (1 << width) - 1
    if mode == "max":
        return top
    if mode == "min":
        return 0
    if mode == "walk1":
        return 1 << rnd.randrange(width)
    c = rnd.randrange(8)
    if c == 0:
        return top
    if c == 1:
        return rnd.choice([0, 1, top >> 1, (top >> 1) + 1])
    return rnd.getrandbits(width)


def _spell(rnd: random.Random, v: int, width: int, spell: str, enums=(), shift: int = 0):
    """A configuration spelling of an integer (documented: numbers, hex/bin/dec strings, enumeration names)."""
    names = [n for n, val in enums if val == v]
    all_names = [n for n, _ in enums]
    uniq = [n for n in names if all_names.count(n) == 1]
    choice = spell if spell != "mixed" else rnd.choice(["int", "hex", "hex", "dec", "bin", "enum", "enum"])
    if choice == "enum" and uniq:
        return uniq[0], "enum_name"
    if choice == "int" or choice == "enum":
        return v, "int"
    if choice == "dec":
        text = "%d" % v
    elif choice == "bin":
        text = bin(v)
    else:
        digits = max(1, (width + shift + 3) // 4)
        text = "0x%0*X" % (digits, v)
        if rnd.randrange(4) == 0:
            text = text.lower()
    if text in all_names:  # a spelling that collides with an enumeration name would be read as that name
        return v, "int"
    return text, "str"


def run_values(case, o: Oracle) -> None:
    t = {k: case[k] for k in ("dev", "rev", "area", "sub")}
    try:
        m = _model(t)
    except KeyError:
        raise HarnessError("tuple %s is not in the database under test" % t)
    ad = _adapter(m)
    area = m.area
    if not _values_domain(m):
        raise SkipCase()  # covered by the defaults part only (see ASSUMPTIONS)
    o.label("step:values", "area:" + area, "mode:" + case["mode"])
    rnd = random.Random(hashlib.sha256(repr(sorted((k, v) for k, v in case.items() if k != "explicit")).encode()).digest())
    if area == "tz":
        _values_tz(m, ad, case, rnd, o)
        return
    # ------------------------------------------------ choose registers and build the assignment
    cands = [r for r in m.visible() if r.writable and not m.owned(r) and (id(r) not in m.group_of)]
    cands += [g for g in m.groups if g.complete and g.access in ("RW", "WO")]
    if not cands:
        o.nontrivial(False)
        return
    base = None
    if ad.has_binary:
        bkey = ("default_export", m.dev, m.rev, area, m.sub)
        if bkey not in _S:
            with o.spsdk("construct"):
                _S[bkey] = ad.export(ad.new())
        base = _S.get(bkey)
        if base is None:
            o.nontrivial(True)
            return
    k = min(case["k"], len(cands))
    first = case["first"] % len(cands)
    chosen = [cands[(first + i) % len(cands)] for i in range(k)]
    if area == "pfr":
        # a PFR page is consistent only when every register with a computed field went through the configuration
        chosen += [r for r in cands if not isinstance(r, Group) and m.computed_bf(r) and r not in chosen]
    settings: dict = {}
    expect: list = []  # (reg, bit offset, width, value, bit-field or None) in binary terms
    group_expect: list = []  # (group, nbytes, bytes or None, int value)
    forms = set()
    explicit = case.get("explicit")
    for r in chosen:
        if isinstance(r, Group):
            _assign_group(m, r, rnd, case, settings, group_expect, forms)
            continue
        eff = [b.name if b.name is not None else "HIDDEN_BITFIELD_%03X" % b.offset for b in r.bitfields]
        unique = [b for b, n in zip(r.bitfields, eff) if eff.count(n) == 1 and b.width > 0]  # addressable in a configuration
        named = [b for b in unique if b.name is not None and b.writable and not m.owned(r, b)]
        has_computed = bool(m.computed_bf(r))
        whole_ok = not has_computed and not any(m.owned(r, b) for b in r.bitfields) and all(b.writable for b in r.named_bitfields()) \
            and not any(b.shift for b in r.bitfields)
        if r.bitfields and named and not (whole_ok and case["whole"] == 0):
            d = {}
            for b in named:
                v = _draw_value(rnd, b.width, case["mode"])
                text, form = _spell(rnd, v << b.shift, b.width, case["spell"], b.enums, b.shift)
                d[b.name] = text
                forms.add(form)
                expect.append((r, b.offset, b.width, v, b))
                if form != "enum_name" and [n for n, val in b.enums if val == v and [x for x, _ in b.enums].count(n) > 1]:
                    o.label("enum:duplicate_name_value")  # the value's enumeration name also names another value
            settings[r.name] = d
            forms.add("bitfields")
        elif not r.bitfields or whole_ok:
            v = _draw_value(rnd, r.width, case["mode"])
            if r.bitfields:
                # bits outside every individually addressable bit-field keep their default (the configuration cannot express them)
                mask = 0
                for b in unique:
                    mask |= b.mask << b.offset
                dflt = regspec.reg_int(base, r.offset, r.nbytes) if base is not None and r.offset + r.nbytes <= len(base) else r.reset
                v = (v & mask) | (dflt & ~mask & ((1 << r.width) - 1))
                for b in unique:
                    fv = (v >> b.offset) & b.mask
                    if [n for n, val in b.enums if val == fv and [x for x, _ in b.enums].count(n) > 1]:
                        o.label("enum:duplicate_name_value")
            text, form = _spell(rnd, v, r.width, case["spell"] if case["spell"] != "enum" else "mixed")
            if rnd.randrange(5) == 0:
                text = {"value": text}  # the older, still documented {value: ...} form
                forms.add("value_dict")
            settings[r.name] = text
            forms.add(form)
            forms.add("whole")
            expect.append((r, 0, r.width, v, None))
    if explicit is not None:
        settings = explicit
    if not settings:
        o.nontrivial(False)
        return
    for f in forms:
        o.label("form:" + f)
    o.key(("values", m.spec_key, repr(sorted(case.items()))))
    o.sample({"tuple": t, "registers_assigned": len(settings), "example": dict(list(settings.items())[:2])})
    cfg = ad.cfg_with(settings)

    if not ad.has_binary:
        _values_fuses(m, ad, cfg, settings, expect, o, explicit is not None, case["seed"] % 4 == 0)
        return

    # ------------------------------------------------ load, export
    obj = data = None
    with o.spsdk("load_values"):
        obj = ad.load(cfg)
    if obj is None:
        o.nontrivial(True)
        return
    with o.spsdk("export", "values"):
        data = ad.export(obj)
    if data is None:
        return
    nondefault = data != base
    o.nontrivial(nondefault)
    if nondefault:
        o.label("nondefault")

    def bits(reg, bf):
        return regspec.field_bits(data, reg.offset, reg.nbytes, bf.offset, bf.width)

    present = _xmcd_present(m, bits) if area == "xmcd" else m.regs
    want_size = max(r.offset + r.nbytes for r in present) if area == "xmcd" else m.size
    if want_size is not None:
        o.check("export_size", len(data) == want_size, "values", "%s: %d bytes exported, expected %d" % (t, len(data), want_size))
    elif explicit is None:
        o.check("export_size", len(data) == len(base), "values", "%s: %d bytes exported, default export has %d" % (t, len(data), len(base)))

    # ------------------------------------------------ (f) read back from the binary with the independent layout
    if explicit is None and m.clean:
        mask_assigned = bytearray(len(data))
        for r, off, width, v, b in expect:
            if r not in present:
                continue
            got = regspec.field_bits(data, r.offset, r.nbytes, off, width)
            if got != v:
                o.fail("readback", "binary_field", "%s: %s%s written %s, binary holds 0x%x at byte 0x%x bit %d width %d" % (
                    t, r.name, "." + b.name if b else "", settings[r.name] if b is None else settings[r.name][b.name], got, r.offset, off, width))
                break
            _mark(mask_assigned, r.offset, r.nbytes, off, width)
        for g, nbytes, raw, value in group_expect:
            seg = data[g.offset : g.offset + nbytes]
            if raw is not None:
                o.check("readback", seg == raw, "binary_group_bytes", "%s: group %s written %s, binary holds %s" % (t, g.name, raw.hex(), seg.hex()))
            else:
                for i, s in enumerate(g.subs):
                    w = (value >> (i * g.sub_width)) & ((1 << g.sub_width) - 1)
                    got = regspec.reg_int(data, s.offset, s.nbytes)
                    if got != w:
                        o.fail("readback", "binary_group_subreg", "%s: group %s sub-register %d (%s) holds 0x%x, expected 0x%x" % (t, g.name, i, s.name, got, w))
                        break
            for s in g.subs[: nbytes * 8 // g.sub_width]:
                _mark(mask_assigned, s.offset, s.nbytes, 0, s.width)
        # computed fields of configured registers
        n_comp = _check_computed(m, data, set(settings), o, "values")
        if n_comp:
            o.label("computed_checked")
        for r in m.regs:
            if r.name in settings:
                for bf_uid in m.computed_bf(r):
                    b = next((x for x in r.bitfields if x.uid == bf_uid), None)
                    if b is not None:
                        _mark(mask_assigned, r.offset, r.nbytes, b.offset, b.width)
        # isolation: every bit that was not assigned keeps the value of the default export
        if len(base) == len(data):
            for i in range(len(data)):
                keep = 0xFF & ~mask_assigned[i]
                if (data[i] ^ base[i]) & keep:
                    o.fail("isolation", "unassigned_bits_changed", "%s: byte 0x%x is 0x%02x, default 0x%02x, assigned mask 0x%02x; configured %s" % (
                        t, i, data[i], base[i], mask_assigned[i], list(settings)[:6]))
                    break
    # ------------------------------------------------ (b) parse / verify, (c) re-export, (d) config round trips
    parsed = None
    with o.spsdk("parse_accepts", "values"):
        parsed = ad.parse(data)
    if parsed is None:
        return
    with o.spsdk("verify", "values"):
        msg = ad.verify(parsed)
        if msg:
            o.fail("verify", "errors:values", "%s: verifier rejects own export: %s" % (t, msg[:300]))
    with o.spsdk("reexport", "values"):
        again = ad.export(parsed)
        o.check("reexport", again == data, "values", "%s: export(parse(b)) != b (%s)" % (t, _diff(data, again)))
    if area == "xmcd":
        with o.spsdk("computed", "xmcd_crc"):
            if case["seed"] % 4 == 0:
                o.eq("computed", "xmcd_crc:values", parsed.crc, RC.crc32_mpeg2(data).to_bytes(4, "big"))
            o.check("export_size", parsed.header.xmcd_size == len(data), "xmcd_header_size:values", "%s: header says %d bytes, binary has %d" % (t, parsed.header.xmcd_size, len(data)))
            _check_xmcd_header(m, data, o, "values")
    if area == "memcfg":
        _memcfg_words(m, parsed, data, o, "values")
    deep = area not in ("xmcd", "fcb") or case["seed"] % 4 == 0  # the YAML text form of the two expensive areas: every 4th case
    cfg2 = _config_roundtrips(m, ad, parsed, data, o, "values", deep)
    # ------------------------------------------------ (f) read back from the configuration of the parsed binary
    if explicit is None and m.clean:
        with o.spsdk("readback", "config"):
            if cfg2 is None:
                cfg2 = ad.get_config(parsed)
            sett2 = cfg2.get(ad.settings_key) or {}
            active = None
            if area == "memcfg":
                active = {r.name for r in m.visible()[: max(0, _memcfg_count(m, data))]}
            for r, off, width, v, b in expect:
                if r not in present or (active is not None and r.name not in active):
                    continue
                if r.name not in sett2:
                    o.fail("readback", "config_register_missing", "%s: register %s is not in the configuration of the parsed binary" % (t, r.name))
                    break
                entry = sett2[r.name]
                if b is None:
                    if isinstance(entry, dict):
                        continue  # whole-register write read back through bit-fields: covered by the binary read-back
                    got = _cfg_int(entry, ())
                    if got != v:
                        o.fail("readback", "config_register", "%s: register %s written 0x%x, configuration says %r" % (t, r.name, v, entry))
                        break
                else:
                    if not isinstance(entry, dict) or b.name not in entry:
                        if not isinstance(entry, dict) or v != _default_bits(base, r, b):
                            o.fail("readback", "config_bitfield_missing", "%s: %s.%s (0x%x) is not in the configuration of the parsed binary" % (t, r.name, b.name, v))
                            break
                        continue
                    got = _cfg_int(entry[b.name], b.enums)
                    if got != v << b.shift:
                        o.fail("readback", "config_bitfield", "%s: %s.%s written 0x%x, configuration says %r" % (t, r.name, b.name, v << b.shift, entry[b.name]))
                        break


def _default_bits(base: bytes, r, b) -> int:
    return regspec.field_bits(base, r.offset, r.nbytes, b.offset, b.width)


def _mark(mask: bytearray, reg_off: int, nbytes: int, bit_off: int, width: int) -> None:
    bits = ((1 << width) - 1) << bit_off
    raw = bits.to_bytes(nbytes, "little")
    for i, x in enumerate(raw):
        if reg_off + i < len(mask):
            mask[reg_off + i] |= x


def _cfg_int(entry, enums) -> int:
    """Numeric meaning of a configuration value as the format documents it (enumeration name first)."""
    if isinstance(entry, bool):
        return int(entry)
    if isinstance(entry, int):
        return entry
    s = str(entry)
    for n, v in enums:
        if n == s:
            return v
    return int(s.replace("_", ""), 0)


def _assign_group(m: Model, g: Group, rnd: random.Random, case, settings: dict, group_expect: list, forms: set) -> None:
    nbytes = g.width // 8
    if g.alt and rnd.randrange(2):
        nbytes = sorted(g.alt)[0] // 8
    if case["mode"] == "max":
        raw = b"\xff" * nbytes
    elif case["mode"] == "min":
        raw = bytes([1]) + bytes(nbytes - 1)
    else:
        raw = bytes([rnd.randrange(1, 256)]) + bytes(rnd.getrandbits(8) for _ in range(nbytes - 1))
    value = int.from_bytes(raw, "big")
    if g.hexstring:
        text = raw.hex().upper() if rnd.randrange(2) else raw.hex()
    else:
        text = "0x" + raw.hex()
    if g.alt and not g.reversed:
        return  # alternative widths of a plain group: no documented layout, left out
    settings[g.name] = text
    forms.add("group")
    if m.area == "fuses":
        group_expect.append((g, nbytes, None, value))
    elif g.reversed and not g.rso and g.contiguous:
        group_expect.append((g, nbytes, raw, value))
    elif not g.reversed and not g.rso:
        group_expect.append((g, nbytes, None, value))


def _values_tz(m: Model, ad: Adapter, case, rnd: random.Random, o: Oracle) -> None:
    t = m.t
    names = list(m.presets)
    k = min(case["k"], len(names))
    first = case["first"] % len(names)
    customs = {}
    want = dict(m.presets)
    for i in range(k):
        n = names[(first + i) % len(names)]
        v = _draw_value(rnd, 32, case["mode"])
        text, form = _spell(rnd, v, 32, case["spell"] if case["spell"] != "enum" else "mixed")
        customs[n] = text
        want[n] = v
        o.label("form:" + form)
    o.label("form:tz")
    o.key(("values", m.spec_key, repr(sorted(case.items()))))
    o.sample({"tuple": t, "presets_assigned": len(customs)})
    expected = b"".join(struct.pack("<I", v & 0xFFFFFFFF) for v in want.values())
    data = None
    with o.spsdk("load_values"):
        obj = ad.load(ad.cfg_with(customs))
        data = ad.export(obj)
    if data is None:
        return
    nd = data != b"".join(struct.pack("<I", v & 0xFFFFFFFF) for v in m.presets.values())
    o.nontrivial(nd)
    if nd:
        o.label("nondefault")
    o.check("readback", data == expected, "tz_binary", "%s: exported TrustZone block differs from presets + customisations (%s)" % (t, _diff(expected, data)))
    o.check("export_size", len(data) == m.size, "values", "%s: %d bytes, preset file has %d registers" % (t, len(data), len(m.presets)))
    with o.spsdk("reexport", "values"):
        p = ad.parse(data)
        o.check("reexport", ad.export(p) == data, "values", "%s: export(from_binary(b)) != b" % (t,))
        c2 = ad.get_config(p)
        o.check("config_roundtrip", ad.export(ad.load(c2)) == data, "dict:values", "%s: from_config(customs of parsed binary) differs" % (t,))
        got = {n: _cfg_int(v, ()) for n, v in (p.customs or {}).items()}
        o.check("readback", got == {n: v & 0xFFFFFFFF for n, v in want.items()}, "tz_config", "%s: parsed presets differ from the written ones" % (t,))


def _fuse_values(obj) -> dict:
    out = {}
    for r in obj.fuse_regs:
        out[r.name] = r.get_value(raw=True)
        for s in r.sub_regs:
            out[s.name] = s.get_value(raw=True)
    return out


def _values_fuses(m: Model, ad: Adapter, cfg: dict, settings: dict, expect: list, o: Oracle, explicit: bool, deep: bool = True) -> None:
    t = m.t
    obj = None
    with o.spsdk("load_values"):
        obj = ad.load(cfg)
    if obj is None:
        o.nontrivial(True)
        return
    o.nontrivial(True)
    o.label("nondefault")
    with o.spsdk("config_roundtrip", "dict:values"):
        c2 = ad.get_config(obj)
        y = ad.load(c2)
        c3 = ad.get_config(y)
        o.check("config_roundtrip", c3 == c2, "dict:values", "%s: get_config(load(get_config(x))) differs: %s" % (t, _dict_diff(c2, c3)))
        o.check("config_roundtrip", _fuse_values(y) == _fuse_values(obj), "dict_values:values",
                "%s: load(get_config(x)) holds other fuse values: %s" % (t, _dict_diff(_fuse_values(obj), _fuse_values(y))))
    if deep:
        with o.spsdk("config_roundtrip", "diff:values"):
            cd = ad.get_config(obj, diff=True)
            if cd.get("registers"):
                y = ad.load(cd)
                o.check("config_roundtrip", _fuse_values(y) == _fuse_values(obj), "diff:values",
                        "%s: diff configuration does not reproduce the values: %s" % (t, _dict_diff(_fuse_values(obj), _fuse_values(y))))
    if explicit:
        return
    per_reg: dict = {}
    for r, off, width, v, b in expect:
        mask, val = per_reg.get(r.name, (0, 0))
        mask |= ((1 << width) - 1) << off
        val |= v << off
        per_reg[r.name] = (mask, val)
    with o.spsdk("readback", "fuse_script"):
        _check_fuse_script(m, obj, per_reg, o, "values")
    with o.spsdk("readback", "config"):
        sett2 = (ad.get_config(obj).get("registers")) or {}
        for r, off, width, v, b in expect:
            entry = sett2.get(r.name)
            if entry is None:
                o.fail("readback", "config_register_missing", "%s: fuse %s is not in the configuration" % (t, r.name))
                break
            if b is None:
                if not isinstance(entry, dict) and _cfg_int(entry, ()) != v:
                    o.fail("readback", "config_register", "%s: fuse %s written 0x%x, configuration says %r" % (t, r.name, v, entry))
                    break
            elif isinstance(entry, dict) and b.name in entry:
                if _cfg_int(entry[b.name], b.enums) != v << b.shift:
                    o.fail("readback", "config_bitfield", "%s: %s.%s written 0x%x, configuration says %r" % (t, r.name, b.name, v, entry[b.name]))
                    break


# ====================================================================== parts

# ====================================================================== targeted enumerations added after the seeded-change audit
def _reconf_items() -> list:
    """Every PFR / IFR tuple whose database record declares computed fields, twice (two value seeds)."""
    s = _state()
    if "reconf" not in s:
        out = []
        for t in s["tuples"]:
            if t["area"] not in ("pfr", "ifr"):
                continue
            m = _model(t)
            if not _values_domain(m) or not any(m.computed_bf(r) for r in m.regs):
                continue
            for seed in (0, 1):
                out.append({"dev": t["dev"], "rev": t["rev"], "area": t["area"], "sub": t["sub"], "seed": seed})
        s["reconf"] = out
    return s["reconf"]


def _reconf_settings(m: Model, rnd: random.Random) -> tuple[dict, list]:
    """In-range values for every named writable non-computed bit-field of the registers that carry computed fields."""
    settings: dict = {}
    expect = []
    for r in m.visible():
        comp = m.computed_bf(r)
        if not comp or not r.writable or m.owned(r):
            continue
        names = [b.name for b in r.bitfields]
        d = {}
        for b in r.named_bitfields():
            if b.uid in comp or b.name in comp or not b.writable or b.width <= 0 or names.count(b.name) != 1 or m.owned(r, b) or b.shift:
                continue
            v = _draw_value(rnd, b.width, "random")
            d[b.name] = hex(v)
            expect.append((r, b.offset, b.width, v))
        if d:
            settings[r.name] = d
    return settings, expect


def run_reconfigure(case, o: Oracle) -> None:
    """History on ONE object: configure + export, parse that binary, configure the parsed object with other values, export.

    The computed fields must hold in the second binary as well ("computed fields hold in every exported binary"), and the
    second assignment must read back."""
    t = {k: case[k] for k in ("dev", "rev", "area", "sub")}
    m = _model(t)
    ad = _adapter(m)
    o.label("step:reconfigure", "area:" + m.area)
    rnd = random.Random(hashlib.sha256(repr(sorted(case.items())).encode()).digest())
    s1, _ = _reconf_settings(m, rnd)
    s2, expect2 = _reconf_settings(m, rnd)
    if not s1 or not s2:
        o.nontrivial(False)
        return
    o.nontrivial(True)
    o.key(("reconfigure", m.dev, m.rev, m.sub, case["seed"]))
    o.sample({"tuple": t, "first": {k: s1[k] for k in list(s1)[:2]}, "second": {k: s2[k] for k in list(s2)[:2]}})
    b1 = b2 = None
    with o.spsdk("reconfigure", "first"):
        obj1 = ad.load(ad.cfg_with(s1))
        b1 = ad.export(obj1)
    if b1 is None:
        return
    _check_computed(m, b1, set(s1), o, "reconfigure_first")
    with o.spsdk("reconfigure", "second"):
        obj2 = ad.parse(b1)
        obj2.set_config(s2)
        b2 = ad.export(obj2)
    if b2 is None:
        return
    _check_computed(m, b2, set(s2), o, "reconfigure_second")
    for r, off, width, v in expect2:
        got = regspec.field_bits(b2, r.offset, r.nbytes, off, width)
        o.check("readback", got == v, "reconfigure_field", "%s register %s bits [%d+%d]: binary holds %#x, configured %#x" % (m.t, r.name, off, width, got, v))
    # the same second configuration on a fresh object gives the same registers (no residue of the first one)
    with o.spsdk("reconfigure", "fresh"):
        b3 = ad.export(ad.load(ad.cfg_with(s2)))
        for r in m.visible():
            if r.name in s2:
                o.check("computed", regspec.reg_int(b2, r.offset, r.nbytes) == regspec.reg_int(b3, r.offset, r.nbytes) or any(
                    b.name not in s2[r.name] and not (b.uid in m.computed_bf(r) or b.name in m.computed_bf(r)) for b in r.named_bitfields()),
                    "reconfigure_residue", "%s register %s: %#x after parse+set_config, %#x on a fresh object" % (
                        m.t, r.name, regspec.reg_int(b2, r.offset, r.nbytes), regspec.reg_int(b3, r.offset, r.nbytes)))


def _memcfg_rule_items() -> list:
    """One tuple per (option-word specification, count rule) class x 8 seeds, every register assigned."""
    s = _state()
    if "memcfg_rules" not in s:
        seen = {}
        for t in s["tuples"]:
            if t["area"] != "memcfg":
                continue
            m = _model(t)
            if not _values_domain(m):
                continue
            seen.setdefault((m.spec_key, m.ow_rule), t)
        out = []
        for (_, rule), t in sorted(seen.items(), key=lambda kv: repr(kv[0])):
            for seed in range(8):
                out.append({"dev": t["dev"], "rev": t["rev"], "area": "memcfg", "sub": t["sub"], "k": 400, "first": 0,
                            "mode": "random" if seed % 4 else ("max", "min")[seed // 4], "spell": "mixed", "whole": 1, "seed": 1000 + seed})
        s["memcfg_rules"] = out
    return s["memcfg_rules"]


def run_memcfg_rules(case, o: Oracle) -> None:
    run_values(case, o)
    o.label("step:memcfg_rules")

def parts(ctx):
    s = _state()
    # build every model once here (parent process): specification files are read a single time and the
    # SPSDK database is loaded before the workers are forked
    s["tier"] = ctx.tier
    s["repr"] = {}
    for t in s["tuples"]:
        m = _model(t)
        s["repr"].setdefault(m.class_key, (m.dev, m.rev, m.sub))
    try:  # imports and schema files are loaded here once; the forked workers inherit them
        from spsdk.utils.database import DatabaseManager, get_schema_file

        DatabaseManager()
        import spsdk.fuses.fuses, spsdk.image.bca.bca, spsdk.image.fcb.fcb, spsdk.image.fcf.fcf, spsdk.image.trustzone  # noqa: F401,E401
        import spsdk.image.xmcd.xmcd, spsdk.memcfg.memcfg, spsdk.pfr.pfr  # noqa: F401,E401

        for f in ("general", "pfr", "bca", "fcf", "fcb", "xmcd", "tz", "fuses", "memcfg"):
            get_schema_file(f)
    except Exception:  # noqa: BLE001 - a broken tree shows up as failures of the cases, not here
        pass
    n_quick = 500
    # one tuple per specification class with *every* assignable register given a value (three value modes): a register that is lost
    # on the way (a tail cut off on parse, a word outside its group) cannot hide behind the draw of a few registers
    full = []
    seen = set()
    for t in s["tuples"]:
        m = _model(t)
        if m.class_key in seen or not _values_domain(m):
            continue
        seen.add(m.class_key)
        # "min" (every register zero) selects the shortest variant of a size-dependent area (XMCD with one option word)
        for j, mode in enumerate(("random", "max", "min")):
            full.append({"dev": t["dev"], "rev": t["rev"], "area": t["area"], "sub": t["sub"], "k": 100000, "first": 0,
                         "mode": mode if mode in MODES else MODES[0], "spell": "mixed", "whole": 0, "seed": 1000 + 2 * len(full) + j})
    return [
        EnumPart("defaults", _tuples_count, _tuples_item, run_defaults),
        HypPart("values", _values_strategy, run_values, {"quick": n_quick, "thorough": 30000}),
        EnumPart("values_full", lambda tier: len(full), lambda tier, i: dict(full[i]), run_values),
        EnumPart("reconfigure", lambda tier: len(_reconf_items()), lambda tier, i: _reconf_items()[i], run_reconfigure),
        EnumPart("memcfg_rules", lambda tier: len(_memcfg_rule_items()), lambda tier, i: _memcfg_rule_items()[i], run_memcfg_rules),
    ]
