"""C05 - Secure Binary 3.1: hash chain, block keys and commands decode to the input (DESIGN.md section 4, C05)."""
from __future__ import annotations

import glob
import hashlib
import os

import yaml

from hypothesis import strategies as st

from vf import cli
from vf.core import HarnessError, HypPart, Oracle, VERIF_DIR, case_digest, reorder, spsdk_frame
from vf.gen import keys as K
from vf.ref import sb31_rom

ID = "C05"
LEVEL = "exploration"
TECHNIQUE = "Hypothesis-generated command sequences, key sets, header parameters and export histories; differential against an independent SB3.1 loader model (hash chain, CMAC-KDF, AES-CBC, cert block v2.1, ECDSA, command decoder) calibrated on stored upstream containers; the configuration path gives command data in every documented form (file, `values`, `value`; authenticated loads under both spellings); a third of the configuration-built cases are also built by the real `nxpimage sb31 export` command and its output file judged by the same model"
LEVEL_TEXT = (
    "exploration over inputs and export histories: every container returned by every export() of a generated history is processed by a loader "
    "model that shares no code with spsdk; it must accept it (header, hash of block 1, certificate block, ISK and container signatures, hash chain "
    "to a zero terminator, block numbers, per-block keys) and the decoded command stream and header fields must equal the inputs, with no file byte "
    "outside signature-plus-hash-chain coverage"
)
RULE = (
    "case = (family, 0..12 commands over the 14 command classes with in-range fields and data lengths chosen to end the stream at every offset mod "
    "256, P-256/P-384 root sets of 1..4 with each used index, optional ISK (either curve) with user data, PCK 128/256 bit, kdk access rights 0..3, "
    "encrypted or plain, timestamp, firmware version, description, flags, NXP-container flag, history of 1..3 exports with optional add_command in "
    "between); non-trivial = >= 2 data blocks or encrypted or ISK; distinct by (hash type, block count, stream length mod 256, command multiset, history)"
)
ASSUMPTIONS = [
    "the loader model is the author's reading of the SB3.1 format; at start-up it must accept six containers produced by upstream SPSDK (tests' stored goldens, P-256/P-384, with/without ISK, encrypted with the stored PCK, and the all-commands container) and decode their command lists",
    "the successor hash of the last data block is zero (as in all stored containers)",
    "ECDSA signatures are randomised: validity is checked, not bytes",
]
FLOORS = {"cli": 0.012, "encrypted": 0.12, "isk": 0.1, "multi_export": 0.12, "blocks>=2": 0.12}

GOLD = os.path.join(VERIF_DIR, "fixtures", "golden", "sb31")
FAMILIES = ["lpc55s3x", "mcxn9xx", "kw45xx", "k32w1xx", "lpc55s36", "mcxn947", "kw45b41z8", "rw612", "mcxw716c", "mimxrt798s"]


def calibrate(ctx) -> None:
    pck = bytes.fromhex(open(os.path.join(GOLD, "userkey.txt")).read().strip())
    seen = 0
    for fn in sorted(glob.glob(os.path.join(GOLD, "*.sb3"))):
        data = open(fn, "rb").read()
        try:
            r = sb31_rom.load(data, None if "unencrypted" in fn else pck, rights=3)
            cmds = [c["cmd"] for c in sb31_rom.decode_stream(r["stream"])]
        except sb31_rom.Reject as exc:
            raise HarnessError("SB3.1 model rejects upstream golden %s: %s" % (os.path.basename(fn), exc)) from exc
        if cmds[:2] != ["erase", "load"]:
            raise HarnessError("SB3.1 model decodes %s to %r" % (fn, cmds))
        if "sb3_test" in fn and len(cmds) != 19:
            raise HarnessError("SB3.1 model decodes the all-commands golden to %d commands" % len(cmds))
        seen += 1
        # adequacy: single-bit corruption anywhere must be rejected
        for pos in (5, 70, r["block0"] - 3, r["block0"] + 2, r["block0"] + 40, len(data) - 1):
            bad = bytearray(data)
            bad[pos] ^= 4
            try:
                sb31_rom.load(bytes(bad), None if "unencrypted" in fn else pck, rights=3)
            except sb31_rom.Reject:
                continue
            raise HarnessError("SB3.1 model accepts %s with byte %d corrupted" % (os.path.basename(fn), pos))
    if seen < 6:
        raise HarnessError("SB3.1 goldens missing")


# ------------------------------------------------------------------ generators
_U32 = st.one_of(st.integers(0, 0xFFFFFFFF), st.sampled_from([0, 1, 0xFFFFFFFF, 0x80000000, 0x1000]))
_MEM = st.sampled_from([0, 0, 1, 9, 0x100])


def _data(min_size=1):
    n = st.one_of(st.integers(min_size, 64), st.sampled_from([1, 15, 16, 17, 100, 208, 224, 239, 240, 241, 255, 256, 257, 500, 1024]))
    blob = n.flatmap(lambda k: st.binary(min_size=max(k, min_size), max_size=max(k, min_size)))
    # a few 32-bit numbers, the kind of data a configuration gives as `values` / `value` (zero and all-ones included)
    word = st.one_of(st.sampled_from([0, 0, 1, 0xFFFFFFFF, 0x80000000]), st.integers(0, 0xFFFFFFFF))
    words = st.lists(word, min_size=1, max_size=4).map(lambda ws: b"".join(w.to_bytes(4, "little") for w in ws))
    return st.one_of(blob, blob, blob, words)


def _words():
    return st.integers(1, 12).flatmap(lambda k: st.binary(min_size=4 * k, max_size=4 * k))


def _command():
    return st.one_of(
        st.fixed_dictionaries({"c": st.just("erase"), "address": _U32, "length": _U32, "memory_id": _MEM}),
        st.fixed_dictionaries({"c": st.just("load"), "address": _U32, "data": _data(), "memory_id": _MEM}),
        st.fixed_dictionaries({"c": st.just("load"), "address": _U32, "data": _data(), "memory_id": _MEM}),
        st.fixed_dictionaries({"c": st.just("loadCMAC"), "address": _U32, "data": _data(), "memory_id": _MEM}),
        st.fixed_dictionaries({"c": st.just("loadHashLocking"), "address": _U32, "data": _data(), "memory_id": _MEM}),
        st.fixed_dictionaries({"c": st.just("execute"), "address": _U32}),
        st.fixed_dictionaries({"c": st.just("call"), "address": _U32}),
        st.fixed_dictionaries({"c": st.just("programFuses"), "address": _U32, "data": _words()}),
        st.fixed_dictionaries({"c": st.just("programIFR"), "address": _U32, "data": _data()}),
        st.fixed_dictionaries({"c": st.just("copy"), "address": _U32, "length": _U32, "destination": _U32, "memory_id_from": _MEM, "memory_id_to": _MEM}),
        st.fixed_dictionaries({"c": st.just("loadKeyBlob"), "offset": st.integers(0, 0xFFFF), "key_wrap_id": st.sampled_from([16, 17, 18, 19]), "data": _data()}),
        st.fixed_dictionaries({"c": st.just("configureMemory"), "address": _U32, "memory_id": st.integers(0, 0xFFFFFFFF)}),
        st.fixed_dictionaries({"c": st.just("fillMemory"), "address": _U32, "length": _U32, "pattern": _U32}),
        st.fixed_dictionaries({"c": st.just("checkFwVersion"), "value": _U32, "counter_id": st.sampled_from([1, 2, 3, 4])}),
        st.fixed_dictionaries({"c": st.just("reset")}),
    )


def _case():
    curve = st.sampled_from(["secp256r1", "secp384r1"])
    return curve.flatmap(lambda rc: st.fixed_dictionaries({
        "family": st.sampled_from(FAMILIES), "cfg_family": st.integers(0, 99),
        "root_curve": st.just(rc),
        "roots": st.lists(K.ec_scalars(rc, 0.2), min_size=1, max_size=4, unique=True),
        "used_root": st.integers(0, 3),
        "isk": st.one_of(st.none(), K.ec_key_desc(("secp256r1", "secp384r1"), 0.2)),
        "isk_user_data": st.one_of(st.just(b""), st.integers(1, 12).flatmap(lambda k: st.binary(min_size=4 * k, max_size=4 * k))),
        "constraints": st.integers(0, 0xFFFFFFFF),
        "commands": st.lists(_command(), min_size=0, max_size=12),
        "filler": st.integers(0, 255),  # extra load length so that the stream ends at every offset mod 256
        "pck": st.sampled_from([16, 32]).flatmap(lambda n: st.binary(min_size=n, max_size=n)),
        "rights": st.integers(0, 3),
        "encrypted": st.booleans(),
        "timestamp": st.one_of(st.integers(1, (1 << 64) - 1), st.integers(1, 1 << 32)),
        "firmware_version": _U32,
        "description": st.one_of(st.none(), st.text("abcdefghijklmnopqrstuvwxyzABCXYZ0123456789 ._-", min_size=0, max_size=20)),
        "flags": _U32,
        "nxp": st.booleans(),
        "via": st.sampled_from(["class", "class", "config"]),
        "history": st.lists(st.sampled_from(["export", "export", "add_export"]), min_size=1, max_size=3),
        "extra": st.lists(_command(), min_size=2, max_size=2),
    }))


# ------------------------------------------------------------------ building
def build_command(cmd: dict):
    from spsdk.sbfile.sb31 import commands as C

    c = cmd["c"]
    if c == "erase":
        return C.CmdErase(cmd["address"], cmd["length"], cmd["memory_id"])
    if c == "load":
        return C.CmdLoad(cmd["address"], bytes(cmd["data"]), cmd["memory_id"])
    if c == "loadCMAC":
        return C.CmdLoadCmac(cmd["address"], bytes(cmd["data"]), cmd["memory_id"])
    if c == "loadHashLocking":
        return C.CmdLoadHashLocking(cmd["address"], bytes(cmd["data"]), cmd["memory_id"])
    if c == "execute":
        return C.CmdExecute(cmd["address"])
    if c == "call":
        return C.CmdCall(cmd["address"])
    if c == "programFuses":
        return C.CmdProgFuses(cmd["address"], bytes(cmd["data"]))
    if c == "programIFR":
        return C.CmdProgIfr(cmd["address"], bytes(cmd["data"]))
    if c == "copy":
        return C.CmdCopy(cmd["address"], cmd["length"], cmd["destination"], cmd["memory_id_from"], cmd["memory_id_to"])
    if c == "loadKeyBlob":
        return C.CmdLoadKeyBlob(cmd["offset"], bytes(cmd["data"]), cmd["key_wrap_id"])
    if c == "configureMemory":
        return C.CmdConfigureMemory(cmd["address"], cmd["memory_id"])
    if c == "fillMemory":
        return C.CmdFillMemory(cmd["address"], cmd["length"], cmd["pattern"])
    if c == "checkFwVersion":
        return C.CmdFwVersionCheck(cmd["value"], C.CmdFwVersionCheck.CounterID.from_tag(cmd["counter_id"]))
    if c == "reset":
        return C.CmdReset()
    raise AssertionError(c)


def expected(cmd: dict) -> dict:
    c = cmd["c"]
    e = {"cmd": c}
    if c in ("erase",):
        e.update(address=cmd["address"], length=cmd["length"], memory_id=cmd["memory_id"], ext_pad=(0, 0, 0))
    elif c in ("load", "loadCMAC", "loadHashLocking"):
        e.update(address=cmd["address"], length=len(cmd["data"]), memory_id=cmd["memory_id"], ext_pad=(0, 0, 0), data=bytes(cmd["data"]))
    elif c in ("execute", "call"):
        e.update(address=cmd["address"], length=0)
    elif c == "programFuses":
        e.update(address=cmd["address"], count=len(cmd["data"]) // 4, data=bytes(cmd["data"]))
    elif c == "programIFR":
        e.update(address=cmd["address"], length=len(cmd["data"]), data=bytes(cmd["data"]))
    elif c == "copy":
        e.update(address=cmd["address"], length=cmd["length"], destination=cmd["destination"], memory_id_from=cmd["memory_id_from"],
                 memory_id_to=cmd["memory_id_to"], ext_pad=(0,))
    elif c == "loadKeyBlob":
        e.update(offset=cmd["offset"], key_wrap_id=cmd["key_wrap_id"], length=len(cmd["data"]), data=bytes(cmd["data"]))
    elif c == "configureMemory":
        e.update(memory_id=cmd["memory_id"], address=cmd["address"])
    elif c == "fillMemory":
        e.update(address=cmd["address"], length=cmd["length"], pattern=cmd["pattern"], ext_pad=(0, 0, 0))
    elif c == "checkFwVersion":
        e.update(value=cmd["value"], counter_id=cmd["counter_id"])
    elif c == "reset":
        e.update(address=0, length=0)
    return e


_CFG_FAMILIES = ["lpc55s36", "mcxn947", "kw45b41z8", "rw612", "mcxw716c", "mimxrt798s", "k32w148"]
_DB = {}
_N = [0]


def _all_cfg_families() -> list:
    if "all" not in _DB:
        _family_info(_CFG_FAMILIES[0])
        db = _DB["db"]
        _DB["all"] = sorted(f for f in db.devices if "sb31" in db.devices[f].features(db.devices[f].latest))
    return _DB["all"]


def _pins() -> dict:
    """ROM key numbering per device, frozen at the pinned commit (fixtures/device_constants.json, section sb31)."""
    if "pins" not in _DB:
        from vf import pins

        _family_info(_CFG_FAMILIES[0])
        db = _DB["db"]
        sect = pins.load("sb31")
        _DB["pins"] = {f: sect["%s/%s" % (f, db.devices[f].latest)]["key_wraps_version"] for f in db.devices if "%s/%s" % (f, db.devices[f].latest) in sect}
    return _DB["pins"]


def _family_info(family: str) -> dict:
    """supported commands / key wrap version from the device database (own YAML walk, vf.gen.dbenum)."""
    if not _DB:
        from vf.gen import dbenum

        _DB["db"] = dbenum.load()
    d = _DB["db"].devices[family]
    return d.features(d.latest).get("sb31", {})


def _command_cfg(cmd: dict, wd: str, idx: int, wraps_version: int, supported=()):
    """YAML-style configuration entry of a command + the command it must turn into (None: not expressible)."""
    c = cmd["c"]

    def datafile(data: bytes) -> str:
        fn = "data_%d.bin" % idx
        with open(os.path.join(wd, fn), "wb") as f:
            f.write(data)
        return fn

    if c == "erase":
        return {"erase": {"address": hex(cmd["address"]), "size": hex(cmd["length"]), "memoryId": cmd["memory_id"]}}, cmd
    def data_entry(data: bytes, min_value_len: int) -> dict:
        """The three documented ways to give the data of a load / programIFR command: `file`, `values` (32-bit numbers
        separated by commas, or one number) and `value` (one number, stored little endian). Which one is a pure function of
        the command."""
        pick = hashlib.sha256(b"form%d:" % idx + data).digest()
        words = [int.from_bytes(data[i : i + 4], "little") for i in range(0, len(data), 4)]

        def num(w: int, k: int):
            return [hex(w), str(w), "0x%08X" % w, "0b" + bin(w)[2:]][pick[(k + 1) % 32] % 4]

        r = pick[0] % 3
        can_values = bool(data) and len(data) % 4 == 0 and len(data) <= 64
        # `value`: the width is the smallest of 1, 2, 4, 8, 16 bytes that holds the number (documented width rule of
        # value_to_bytes); only data whose top byte is set are given this way, so that the width is their length
        can_value = len(data) in (1, 2, 4, 8, 16) and len(data) >= min_value_len and data[-1] != 0
        if can_value and r == 2:
            v = int.from_bytes(data, "little")
            return {"value": v if pick[1] % 2 else hex(v)}
        if can_values and (r >= 1 or not any(words)):
            if len(words) == 1 and (pick[1] % 2 or not words[0]):
                return {"values": words[0]}  # "one 32 bit integer": a plain number, zero included
            sep = [",", ", ", " ,"][pick[2] % 3]
            return {"values": sep.join(num(w, k) for k, w in enumerate(words))}
        return {"file": datafile(data)}

    if c == "load":
        d = {"address": hex(cmd["address"]), "memoryId": hex(cmd["memory_id"])}
        d.update(data_entry(bytes(cmd["data"]), 1))
        return {"load": d}, cmd
    if c in ("loadCMAC", "loadHashLocking"):
        d = {"address": hex(cmd["address"]), "file": datafile(bytes(cmd["data"])), "memoryId": hex(cmd["memory_id"])}
        if c in supported and hashlib.sha256(b"auth%d:" % idx + bytes(cmd["data"])).digest()[0] % 2:
            return {c: d}, cmd  # the command under its own name
        d["authentication"] = {"loadCMAC": "cmac", "loadHashLocking": "hashlocking"}[c]
        return {"load": d}, cmd  # the earlier spelling: a load with an authentication attribute
    if c in ("execute", "call"):
        return {c: {"address": cmd["address"]}}, cmd
    if c == "programFuses":
        words = [int.from_bytes(bytes(cmd["data"])[i : i + 4], "little") for i in range(0, len(cmd["data"]), 4)]
        return {"programFuses": {"address": hex(cmd["address"]), "values": ",".join(hex(w) for w in words) if len(words) > 1 else words[0]}}, cmd
    if c == "programIFR":
        return {"programIFR": dict({"address": cmd["address"]}, **data_entry(bytes(cmd["data"]), 4))}, cmd
    if c == "copy":
        return {"copy": {"addressFrom": hex(cmd["address"]), "addressTo": cmd["destination"], "size": hex(cmd["length"]),
                         "memoryIdFrom": cmd["memory_id_from"], "memoryIdTo": hex(cmd["memory_id_to"])}}, cmd
    if c == "loadKeyBlob":
        internal = cmd["key_wrap_id"] % 2 == 0
        wrap = {1: (16, 17), 2: (18, 19)}[wraps_version][0 if internal else 1]
        body = {"offset": hex(cmd["offset"]), "wrappingKeyId": "NXP_CUST_KEK_INT_SK" if internal else "NXP_CUST_KEK_EXT_SK"}
        pick = hashlib.sha256(b"blob%d:" % idx + bytes(cmd["data"])).digest()
        if pick[0] % 2:
            # the key blob as hexadecimal text (`plainInput: hex`): every byte counts, leading zero bytes too
            fn = "blob_%d.txt" % idx
            with open(os.path.join(wd, fn), "w", newline="") as f:
                f.write(bytes(cmd["data"]).hex() if pick[1] % 2 else bytes(cmd["data"]).hex().upper())
            body.update(file=fn, plainInput="hex")
        else:
            body["file"] = datafile(bytes(cmd["data"]))
            if pick[1] % 2:
                body["plainInput"] = "bin"
        return {"loadKeyBlob": body}, dict(cmd, key_wrap_id=wrap)
    if c == "configureMemory":
        return {"configureMemory": {"configAddress": hex(cmd["address"]), "memoryId": cmd["memory_id"]}}, cmd
    if c == "fillMemory":
        return {"fillMemory": {"address": cmd["address"], "size": hex(cmd["length"]), "pattern": hex(cmd["pattern"])}}, cmd
    if c == "checkFwVersion":
        return {"checkFwVersion": {"value": cmd["value"], "counterId": {1: "nonsecure", 2: "secure", 3: "radio", 4: "snt"}[cmd["counter_id"]]}}, cmd
    if c == "reset":
        return {"reset": {}}, cmd
    return None, None


def _build_from_config(case, o: Oracle, roots, used, isk, user_data, commands, signer, pck):
    """Build through SecureBinary31.load_from_config with files, as `nxpimage sb31 export` does. Returns (sb, commands really configured)."""
    from spsdk.sbfile.sb31.images import SecureBinary31
    from spsdk.utils.schema_validator import check_config

    if "cfg_family" in case:
        # every family of the database that has SB3.1 (its set of commands and its key numbering are per-device data)
        allf = _all_cfg_families()
        family = allf[case["cfg_family"] % len(allf)]
    else:
        family = _CFG_FAMILIES[_CFG_FAMILIES.index(case["family"]) if case["family"] in _CFG_FAMILIES else len(case["family"]) % len(_CFG_FAMILIES)]
    info = _family_info(family)
    wraps_version = _pins().get(family)
    if wraps_version is None:
        o.label("key_numbering:from_database")
        wraps_version = int(info.get("key_wraps_version", 1))
    supported = set(info.get("supported_commands", []))
    import shutil

    # one directory per worker, emptied for every case: file names repeat with other content (edit the inputs, build again)
    wd = os.path.join(_CTX.get("work") or ".", "c05-%d" % os.getpid())
    shutil.rmtree(wd, ignore_errors=True)
    os.makedirs(wd, exist_ok=True)
    cfg_cmds, real = [], []
    for i, c in enumerate(commands):
        name = {"loadCMAC": "load", "loadHashLocking": "load"}.get(c["c"], c["c"])
        if name not in supported:
            continue
        entry, eff = _command_cfg(c, wd, i, wraps_version, supported)
        if entry is not None:
            cfg_cmds.append(entry)
            real.append(eff)
            body = next(iter(entry.values()))
            if c["c"] in ("load", "programIFR"):
                o.label("cfg_data:" + next(k for k in ("file", "values", "value") if k in body))
                if body.get("values", None) == 0 and not isinstance(body.get("values"), str):
                    o.label("cfg_data:values_number_zero")
            elif c["c"] == "loadKeyBlob":
                o.label("cfg_keyblob:" + body.get("plainInput", "default") + (":leading_zero" if bytes(c["data"])[:1] == b"\0" else ""))
            elif c["c"] in ("loadCMAC", "loadHashLocking"):
                o.label("cfg_auth_load:" + ("own_name" if c["c"] in entry else "attribute"))
    if not cfg_cmds:
        cfg_cmds.append({"erase": {"address": 0, "size": 4096}})
        real.append({"c": "erase", "address": 0, "length": 4096, "memory_id": 0})
    cbc = {"mainRootCertId": used, "useIsk": bool(isk)}
    for i, r in enumerate(roots):
        with open(os.path.join(wd, "root%d.pem" % i), "wb") as f:
            f.write(K.public_pem(K.key_from_desc(r)))
        cbc["rootCertificate%dFile" % i] = "root%d.pem" % i
    if isk:
        with open(os.path.join(wd, "root_key.pem"), "wb") as f:
            f.write(K.private_pem(K.key_from_desc(roots[used])))
        with open(os.path.join(wd, "isk.pem"), "wb") as f:
            f.write(K.public_pem(K.key_from_desc(isk)))
        cbc.update(mainRootCertPrivateKeyFile="root_key.pem", signingCertificateFile="isk.pem", signingCertificateConstraint=case["constraints"])
        if user_data:
            with open(os.path.join(wd, "isk_data.bin"), "wb") as f:
                f.write(user_data)
            cbc["signCertData"] = "isk_data.bin"
    # the keys of both mappings are written in an order picked with the case (a mapping has none)
    order_salt = int(case_digest(case)[:8], 16)
    with open(os.path.join(wd, "cert_block.yaml"), "w") as f:
        yaml.safe_dump(reorder(cbc, order_salt), f, sort_keys=False)
    with open(os.path.join(wd, "sign_key.pem"), "wb") as f:
        f.write(K.private_pem(K.key_from_desc(signer)))
    cfg = {"family": family, "containerOutputFile": "out.sb3", "firmwareVersion": case["firmware_version"], "certBlock": "cert_block.yaml",
           "signPrivateKey": "sign_key.pem", "kdkAccessRights": case["rights"], "containerConfigurationWord": hex(case["flags"]),
           "isNxpContainer": bool(case["nxp"]), "isEncrypted": bool(case["encrypted"]), "timestamp": hex(case["timestamp"]), "commands": cfg_cmds}
    if case["description"]:
        cfg["description"] = case["description"]
    if case["encrypted"]:
        # the part-common key inline (bare, 0x, upper case), in a text file (with or without a line end) or in a binary file
        how = hashlib.sha256(b"pck" + bytes(pck)).digest()[0] % 6
        text = bytes(pck).hex()
        if how in (0, 1, 2):
            cfg["containerKeyBlobEncryptionKey"] = [text, "0x" + text, text.upper()][how]
        elif how in (3, 4):
            with open(os.path.join(wd, "pck.txt"), "w", newline="") as f:
                f.write(text + ("\n" if how == 4 else ""))
            cfg["containerKeyBlobEncryptionKey"] = "pck.txt"
        else:
            with open(os.path.join(wd, "pck.bin"), "wb") as f:
                f.write(bytes(pck))
            cfg["containerKeyBlobEncryptionKey"] = "pck.bin"
        o.label("cfg_pck:" + ["bare", "0x", "upper", "text_file", "text_file_line_end", "bin_file"][how])
    cfg = reorder(cfg, order_salt)
    o.label("cfg_key_order:%d" % (order_salt % 3))
    with o.spsdk("config", "check_config"):
        check_config(cfg, SecureBinary31.get_validation_schemas(family), search_paths=[wd])
    sb = SecureBinary31.load_from_config(cfg, search_paths=[wd])
    # the same configuration, written next to its files, through the real `nxpimage sb31 export`
    by_command = None
    if cli.selected(case, CLI_ONE_IN):
        cfg_path = os.path.join(wd, "sb31.yaml")
        with open(cfg_path, "w") as f:
            yaml.safe_dump(cfg, f, sort_keys=False)
        res = cli.run(o, "sb31_export", ["sb31", "export", "-c", cfg_path], cwd=os.path.join(wd, "cwd"))
        if res is not None:
            data = cli.read(o, "sb31_export", os.path.join(wd, cfg["containerOutputFile"]))
            if data is not None:
                by_command = (data, res)
    import shutil

    shutil.rmtree(wd, ignore_errors=True)
    return sb, real, family, by_command


_CTX: dict = {}
_SP = []
CLI_ONE_IN = 4  # share of the via=config cases (a fifth to a third of all) that are also built by the real `nxpimage sb31 export`


def _sp(desc):
    """In-memory signature provider around an spsdk PrivateKeyEcc."""
    from spsdk.crypto.keys import PrivateKeyEcc
    from spsdk.crypto.signature_provider import SignatureProvider

    if not _SP:

        class MemSP(SignatureProvider):
            identifier = "verif-mem-ecc"

            def __init__(self, key) -> None:
                self.key = key

            @property
            def signature_length(self) -> int:
                return self.key.signature_size

            def sign(self, data: bytes) -> bytes:
                return self.key.sign(data)

            def verify_public_key(self, public_key) -> bool:
                return self.key.verify_public_key(public_key)

        _SP.append(MemSP)
    return _SP[0](PrivateKeyEcc(K.key_from_desc(desc)))


class _Built(Exception):
    pass


def run_case(case, o: Oracle) -> None:
    from spsdk.crypto.keys import PublicKeyEcc
    from spsdk.sbfile.sb31.images import SecureBinary31
    from spsdk.utils.crypto.cert_blocks import CertBlockV21

    rc = case["root_curve"]
    roots = [{"t": "ec", "curve": rc, "d": d} for d in case["roots"]]
    used = case["used_root"] % len(roots)
    isk = case["isk"]
    user_data = bytes(case["isk_user_data"]) if isk else b""
    commands = list(case["commands"])
    if case["filler"]:
        commands.append({"c": "load", "address": 0x100, "data": bytes([case["filler"]]) * case["filler"], "memory_id": 0})
    signer = isk or roots[used]
    hname = "sha256" if signer["curve"] == "secp256r1" else "sha384"
    pck = bytes(case["pck"])
    _classify(case, o, commands, hname)

    via = case.get("via", "class")
    by_command = None
    if via == "config" and user_data and len(user_data) % 16:
        user_data = user_data[: len(user_data) - len(user_data) % 16]  # isk_data_alignment of the families (checked by the config path)
    o.label("via:" + via)
    try:
        if via == "config":
            if len(pck) == 32 and not any(pck[:16]):
                # a hex literal of a 256-bit key whose upper half is zero is also a valid 128-bit literal: the configuration
                # loader tries both widths and keeps the shorter one (observation noted in DESIGN.md 9.3); keep the literal unambiguous
                pck = b"\x80" + pck[1:]
            sb, commands, fam, by_command = _build_from_config(case, o, roots, used, isk, user_data, commands, signer, pck)
            o.label("cfg_family:" + fam)
            raise _Built()
        root_pubs = [PublicKeyEcc(K.key_from_desc(r).public_key()) for r in roots]
        cb = CertBlockV21(
            root_certs=root_pubs, ca_flag=isk is None, used_root_cert=used, constraints=case["constraints"],
            signature_provider=_sp(roots[used]) if isk else None,
            isk_cert=PublicKeyEcc(K.key_from_desc(isk).public_key()) if isk else None,
            user_data=user_data or None,
        )
        cb.calculate()
        sb = SecureBinary31(
            family=case["family"], cert_block=cb, firmware_version=case["firmware_version"], signature_provider=_sp(signer),
            pck=pck if case["encrypted"] else None, kdk_access_rights=case["rights"], description=case["description"],
            is_nxp_container=case["nxp"], flags=case["flags"], timestamp=case["timestamp"], is_encrypted=case["encrypted"],
        )
        for c in commands:
            sb.sb_commands.add_command(build_command(c))
    except _Built:
        pass
    except Exception as exc:  # noqa: BLE001
        o.fail("build", "exc:%s:%s" % (via, type(exc).__name__), repr(exc), spsdk_frame(exc))
        return

    current = [expected(c) for c in commands]
    first = list(current)  # the command list of the configuration file (before any add_command of the history)
    extra = list(case["extra"])
    for step, op in enumerate(case["history"]):
        if op == "add_export" and extra:
            c = extra.pop()
            with o.spsdk("history", "add_command"):
                sb.sb_commands.add_command(build_command(c))
                current.append(expected(c))
        data = None
        with o.spsdk("export", "step%d" % min(step, 1)):
            data = sb.export()
        if data is None:
            return
        o.artifact("file_step%d" % step, data)
        _judge(o, case, data, step, pck, hname, rc, roots, used, isk, user_data, current)
        if step == 0 and by_command is not None:
            # what `nxpimage sb31 export` wrote from the same configuration file: the same model, the same expectations
            cdata, cres = by_command
            co = cli.Scoped(o, "sb31_export")
            m = _judge(co, case, cdata, 0, pck, hname, rc, roots, used, isk, user_data, first)
            if current == first:
                co.eq("twin", "length", len(cdata), len(data))
            if m is not None:
                co.check("rkth", ("RKTH: %s" % m["cert_block"].rot_hash.hex()) in cres.output, "printed_value", cres.describe())


def _judge(o, case, data: bytes, step: int, pck: bytes, hname: str, rc: str, roots: list, used: int, isk, user_data: bytes, current: list):
    """The loader model on one exported container: accepted, header fields, certificate block and command stream as given.
    Returns the model's reading (None: rejected)."""
    sub = "rom_accepts" if step == 0 else "rom_accepts_again"
    try:
        m = sb31_rom.load(data, pck if case["encrypted"] else None, rights=case["rights"])
    except sb31_rom.Reject as exc:
        o.fail(sub, "reject", "export #%d: %s" % (step + 1, exc))
        return None
    h = m["header"]
    hs = "header" if step == 0 else "header_again"
    o.eq(hs, "hash_type", h["hash"], hname)
    o.eq(hs, "flags", h["flags"], case["flags"])
    o.eq(hs, "timestamp", h["timestamp"], case["timestamp"])
    o.eq(hs, "firmware_version", h["firmware_version"], case["firmware_version"])
    o.eq(hs, "image_type", h["image_type"], 7 if case["nxp"] else 6)
    want_desc = (case["description"] or "").encode("ascii")[:16].ljust(16, b"\0")
    o.eq(hs, "description", h["description"], want_desc)
    cbm = m["cert_block"]
    o.eq("cert_block", "used_root", cbm.used_root, used)
    o.eq("cert_block", "root_count", cbm.root_count, len(roots))
    o.eq("cert_block", "ca_flag", cbm.ca, isk is None)
    if isk:
        o.eq("cert_block", "isk_user_data", cbm.isk["user_data"], user_data)
        o.eq("cert_block", "isk_constraints", cbm.isk["constraints"], case["constraints"])
        o.eq("cert_block", "isk_key", (cbm.isk["x"], cbm.isk["y"]), K.ec_public_xy(isk["curve"], isk["d"]))
    from vf.ref.certblock21 import rot_hash

    o.eq("cert_block", "rot_hash", cbm.rot_hash, rot_hash(rc, [K.ec_public_xy(rc, r["d"]) for r in roots]))
    cs = "content" if step == 0 else "content_again"
    try:
        got = sb31_rom.decode_stream(m["stream"])
    except sb31_rom.Reject as exc:
        o.fail(cs, "stream_reject", str(exc))
        return m
    if not o.eq(cs, "command_count", len(got), len(current)):
        o.fail(cs, "command_list", "got %r want %r" % ([g["cmd"] for g in got], [w["cmd"] for w in current]))
        return m
    for i, (g, w) in enumerate(zip(got, current)):
        if g["cmd"] != w["cmd"]:
            o.fail(cs, "command_id", "command %d: got %s want %s" % (i, g["cmd"], w["cmd"]))
            continue
        for k, v in w.items():
            gv = g.get(k)
            if isinstance(v, tuple):
                gv = tuple(gv)
            if gv != v:
                o.fail(cs, "%s:%s" % (w["cmd"], k), "command %d: got %r want %r" % (i, gv if not isinstance(gv, bytes) else gv.hex()[:64], v if not isinstance(v, bytes) else v.hex()[:64]))
    # coverage: minimal number of blocks for the stream
    stream_len = 16 + sum(_enc_len(w) for w in current)
    o.eq(cs, "block_count", h["block_count"], max(1, (stream_len + 255) // 256))
    return m


def _enc_len(w: dict) -> int:
    c = w["cmd"]
    if c in ("erase", "copy", "fillMemory"):
        return 32
    if c in ("load", "loadCMAC"):
        return 32 + (len(w["data"]) + 15) // 16 * 16
    if c == "loadHashLocking":
        return 32 + (len(w["data"]) + 15) // 16 * 16 + 64
    if c in ("programFuses", "programIFR", "loadKeyBlob"):
        return 16 + (len(w["data"]) + 15) // 16 * 16
    return 16


def _classify(case, o: Oracle, commands, hname) -> None:
    stream_len = 16 + sum(_enc_len(expected(c)) for c in commands)
    blocks = max(1, (stream_len + 255) // 256)
    o.label("hash:" + hname, "family:" + case["family"], "roots:%d" % len(case["roots"]), "pck:%d" % len(case["pck"]), "rights:%d" % case["rights"])
    if case["encrypted"]:
        o.label("encrypted")
    if case["isk"]:
        o.label("isk", "isk_curve:" + case["isk"]["curve"])
        if case["isk_user_data"]:
            o.label("isk_user_data")
    if len(case["history"]) > 1:
        o.label("multi_export")
    if "add_export" in case["history"]:
        o.label("add_between_exports")
    if blocks >= 2:
        o.label("blocks>=2")
    o.label("stream_mod16:%d" % ((stream_len % 256) // 16))
    for c in commands:
        o.label("cmd:" + c["c"])
    o.nontrivial(blocks >= 2 or case["encrypted"] or bool(case["isk"]))
    o.key((hname, blocks, stream_len % 256, tuple(sorted(c["c"] for c in commands)), tuple(case["history"]), case["encrypted"], bool(case["isk"])))
    o.sample({"family": case["family"], "root_curve": case["root_curve"], "roots": len(case["roots"]), "used_root": case["used_root"] % len(case["roots"]),
              "isk": case["isk"]["curve"] if case["isk"] else None, "commands": [c["c"] for c in commands], "stream_len": stream_len,
              "blocks": blocks, "encrypted": case["encrypted"], "history": case["history"]})


def parts(ctx):
    _CTX["work"] = ctx.work
    cli.preload()
    from vf import pins

    return [HypPart("sb31", _case(), run_case, {"quick": 1600, "thorough": 60000}),
            pins.part(["sb31"], 30)]  # ROM numbering of the customer key-encryption keys
